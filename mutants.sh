#!/bin/bash
# Sensitivity harness. Builds a scratch copy of the simulator against a modified scratch copy of /repo
# (outside /repo and /verif), runs checks there, and removes everything afterwards.
#   ./mutants.sh patch <file.diff> <prop> [<prop>...]     apply a patch to HEAD, run quick checks
#   ./mutants.sh prefix <commit>                           check out <commit>^ and run the directed scenarios
#   ./mutants.sh clean                                     remove the scratch area
set -u
S=${S:-/tmp/verif_mut}
MODE="$1"; shift
if [ "$MODE" = clean ]; then
  git -C /repo worktree remove --force $S/wt 2>/dev/null; rm -rf $S; git -C /repo worktree prune; exit 0
fi
mkdir -p $S/out
git -C /repo worktree remove --force $S/wt 2>/dev/null; rm -rf $S/wt; git -C /repo worktree prune
if [ "$MODE" = patch ]; then
  PATCH="$1"; shift
  git -C /repo worktree add -q --detach $S/wt HEAD || exit 2
  git -C $S/wt apply "$PATCH" || { echo "patch does not apply"; exit 2; }
elif [ "$MODE" = prefix ]; then
  C="$1"; shift
  git -C /repo worktree add -q --detach $S/wt "$C^" || exit 2
  # the hook may not exist yet at that commit: take the backend from HEAD unless the commit touches it
  if ! git -C /repo show --stat "$C" | grep -q example_backend; then
    rm -rf $S/wt/bevy_replicon_example_backend; cp -r /repo/bevy_replicon_example_backend $S/wt/
  else
    # keep the old backend sources but add the hook files from HEAD
    for f in sim_net.rs; do cp /repo/bevy_replicon_example_backend/src/$f $S/wt/bevy_replicon_example_backend/src/; done
    git -C /repo diff "$C" HEAD -- bevy_replicon_example_backend/Cargo.toml bevy_replicon_example_backend/src/lib.rs bevy_replicon_example_backend/src/client.rs bevy_replicon_example_backend/src/server.rs | git -C $S/wt apply 2>/dev/null
    git -C /repo show 91bc705 -- bevy_replicon_example_backend/src/tcp.rs | git -C $S/wt apply 2>/dev/null
  fi
fi
rm -rf $S/sim; mkdir -p $S/sim; cp -r /verif/sim/src /verif/sim/Cargo.toml /verif/sim/Cargo.lock $S/sim/
mkdir -p $S/sim/.cargo
printf '[net]\noffline = true\n[build]\ntarget-dir = "%s/target"\n' $S > $S/sim/.cargo/config.toml
sed -i "s#/repo#$S/wt#g" $S/sim/Cargo.toml
( cd $S/sim && cargo build --release --offline > $S/build.log 2>&1 ) || { echo "BUILD FAILED"; tail -20 $S/build.log; exit 2; }
BIN=$S/target/release/sim
export VERIF_OUT=$S/out
if [ "$MODE" = prefix ]; then
  $BIN scenarios 2>/dev/null | grep -v "violations=\[\]"
else
  for P in "$@"; do
    if [ "$P" = scenarios ]; then $BIN scenarios 2>/dev/null | grep -v "violations=\[\]"; continue; fi
    OUT=$($BIN check "$P" quick 2>&1); CODE=$?
    echo "== $P exit=$CODE"; echo "$OUT" | grep -E "^violation|VIOLATION|harness" | cut -c1-400
  done
fi
[ -n "${KEEP:-}" ] || { git -C /repo worktree remove --force $S/wt; git -C /repo worktree prune; }
