//! Replay vocabulary: a trace is a profile plus a list of total steps (a step that does not apply is a no-op).

use serde::{Deserialize, Serialize};

use crate::pool::{AppCfg, CEv, Kind, Role, SEv};

#[derive(Clone, Debug, Serialize, Deserialize, PartialEq)]
pub struct Profile {
    pub app: AppCfg,
    pub clients: u8,
    pub slots: u8,
    pub max_size: [usize; 3],
    pub server_role: Role,
    pub client_role: Role,
    /// Quiescence rounds after `Heal` (0 = no end-of-run convergence check).
    pub heal_rounds: u32,
    /// Bit i set: client i is built with a different protocol (one more registration).
    #[serde(default)]
    pub wrong_proto: u8,
    /// How the protocol of those clients differs (`AppCfg::proto_variant`, 1..=4).
    #[serde(default = "one")]
    pub wrong_variant: u8,
}

fn one() -> u8 {
    1
}

impl Default for Profile {
    fn default() -> Self {
        Self {
            app: AppCfg::default(),
            clients: 1,
            slots: 3,
            max_size: [1200; 3],
            server_role: Role::ServerOnly,
            client_role: Role::ClientOnly,
            heal_rounds: 10,
            wrong_proto: 0,
            wrong_variant: 1,
        }
    }
}

/// Send mode of a server event, expressed with client indices.
#[derive(Clone, Copy, Debug, Serialize, Deserialize, PartialEq, Eq)]
pub enum Mode {
    Broadcast,
    /// `BroadcastExcept(client)`; index == clients means `SERVER`.
    Except(u8),
    /// `Direct(client)`; index == clients means `SERVER`.
    Direct(u8),
}

#[derive(Clone, Copy, Debug, Serialize, Deserialize, PartialEq, Eq)]
pub enum Dir {
    /// server -> client
    S2C,
    /// client -> server
    C2S,
}

/// Logical channel names (numeric ids depend on the authorisation method).
#[derive(Clone, Copy, Debug, Serialize, Deserialize, PartialEq, Eq, PartialOrd, Ord)]
pub enum Chan {
    Updates,
    Mutations,
    Mismatch,
    SEv(SEv),
    Acks,
    ProtoHash,
    CEv(CEv),
}

#[derive(Clone, Debug, Serialize, Deserialize, PartialEq)]
pub enum Step {
    // ---- server world
    Spawn { slot: u8, kinds: Vec<Kind>, marker: bool },
    Despawn { slot: u8 },
    MarkerOff { slot: u8 },
    MarkerOn { slot: u8 },
    /// `insert(Replicated)` on an entity that already carries the marker (e.g. as part of a bundle).
    MarkerReinsert { slot: u8 },
    /// Insert (or overwrite) a data component; `extra` = payload length for `Big`.
    Insert { slot: u8, kind: Kind, extra: u16 },
    Remove { slot: u8, kind: Kind },
    Mutate { slot: u8, kind: Kind, extra: u16 },
    /// Insert `Ref` / `LinkTo` pointing at another slot.
    Point { slot: u8, kind: Kind, target: u8 },
    SetVis { client: u8, slot: u8, visible: bool },
    /// `ClientEntityMap::insert(server entity of slot, client's pre-spawned cslot)`.
    MapPreSpawn { client: u8, slot: u8, cslot: u8 },
    Emit { ev: SEv, mode: Mode, target: Option<u8> },
    TickJump { k: u32 },
    ServerFrame { tick: bool, dt_ms: u32 },
    // ---- clients
    ClientEmit { client: u8, ev: CEv, target: Option<u8> },
    PreSpawn { client: u8, cslot: u8 },
    DespawnLocal { client: u8, cslot: u8 },
    ClientFrame { client: u8, dt_ms: u32 },
    /// Put the history marker on the client's copy of a slot (client-side game logic).
    ClientMark { client: u8, slot: u8 },
    // ---- network
    Deliver { dir: Dir, client: u8, chan: Chan, pick: u8 },
    /// Deliver everything queued on the channel (in queue order).
    DeliverAll { dir: Dir, client: u8, chan: Chan },
    Drop { dir: Dir, client: u8, chan: Chan, pick: u8 },
    // ---- connection life-cycle
    Connect { client: u8 },
    Authorize { client: u8 },
    /// side: 0 both ends at once, 1 client end only, 2 server end only.
    Disconnect { client: u8, side: u8 },
    ServerStop,
    ServerStart,
    /// Bytes from a (possibly malicious) client on a client channel given by raw id.
    Inject { client: u8, channel: u8, bytes: Vec<u8> },
    /// A real message waiting in the client's uplink queue is copied, mutated and handed to the server
    /// (kind: 0 bit flip at `a`, 1 truncate to `a`, 2 append `b` x (a % 16), 3 overwrite byte `a` with `b`,
    /// 4 splice a maximal varint in at `a`). The original stays queued.
    InjectMut { client: u8, chan: Chan, kind: u8, a: u16, b: u8 },
    /// Faults stop here; the executor appends the quiescence loop.
    Heal,
}

#[derive(Clone, Debug, Serialize, Deserialize, PartialEq)]
pub struct Trace {
    pub profile: Profile,
    pub steps: Vec<Step>,
}

impl Step {
    pub fn is_fault(&self) -> bool {
        matches!(
            self,
            Step::Drop { .. }
                | Step::Disconnect { .. }
                | Step::ServerStop
                | Step::Inject { .. }
                | Step::InjectMut { .. }
                | Step::TickJump { .. }
        )
    }
    /// Short name used for op / fault counters.
    pub fn name(&self) -> &'static str {
        match self {
            Step::Spawn { .. } => "spawn",
            Step::Despawn { .. } => "despawn",
            Step::MarkerOff { .. } => "marker_off",
            Step::MarkerOn { .. } => "marker_on",
            Step::MarkerReinsert { .. } => "marker_reinsert",
            Step::Insert { .. } => "insert",
            Step::Remove { .. } => "remove",
            Step::Mutate { .. } => "mutate",
            Step::Point { .. } => "point",
            Step::SetVis { .. } => "set_vis",
            Step::MapPreSpawn { .. } => "map_prespawn",
            Step::Emit { .. } => "emit",
            Step::TickJump { .. } => "tick_jump",
            Step::ServerFrame { .. } => "server_frame",
            Step::ClientEmit { .. } => "client_emit",
            Step::PreSpawn { .. } => "prespawn",
            Step::DespawnLocal { .. } => "despawn_local",
            Step::ClientFrame { .. } => "client_frame",
            Step::ClientMark { .. } => "client_mark",
            Step::Deliver { .. } => "deliver",
            Step::DeliverAll { .. } => "deliver_all",
            Step::Drop { .. } => "drop",
            Step::Connect { .. } => "connect",
            Step::Authorize { .. } => "authorize",
            Step::Disconnect { .. } => "disconnect",
            Step::ServerStop => "server_stop",
            Step::ServerStart => "server_start",
            Step::Inject { .. } => "inject",
            Step::InjectMut { .. } => "inject_mutated",
            Step::Heal => "heal",
        }
    }
}
