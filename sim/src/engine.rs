//! What the batch driver, the shrinker and the replayer need from a simulation family.

use serde::{Serialize, de::DeserializeOwned};

use crate::sim::{Stats, Violation};

pub struct Outcome {
    pub violations: Vec<Violation>,
    pub stats: Stats,
    pub harness_error: Option<String>,
    pub log: Vec<String>,
}

pub struct Directed<T> {
    pub id: &'static str,
    pub trace: T,
    /// Non-empty for known findings.
    pub symptom_oracles: Vec<&'static str>,
}

pub trait Engine {
    type T: Serialize + DeserializeOwned + Clone;
    const FAMILY: &'static str;
    fn generate(prop: &str, seed: u64) -> Self::T;
    /// Run `index` of a batch; enumerating engines override this and ignore the seed.
    fn generate_at(prop: &str, seed: u64, index: u64) -> Self::T {
        Self::generate(prop, crate::rng::run_seed(seed, prop, index))
    }
    /// Size of the batch for a tier, if the engine enumerates a finite space.
    fn fixed_total(_tier: &str) -> Option<u64> {
        None
    }
    fn run(t: &Self::T, verbose: bool, no_taint: bool) -> Outcome;
    fn len(t: &Self::T) -> usize;
    /// The trace without steps `from..to`.
    fn without(t: &Self::T, from: usize, to: usize) -> Self::T;
    /// The trace cut after `step` (keeping whatever epilogue the end-of-run oracles need).
    fn cut_after(t: &Self::T, step: usize) -> Self::T;
    /// Simpler variants of the trace (fewer nodes, plain parameters).
    fn simplify(t: &Self::T) -> Vec<Self::T>;
    fn directed(prop: &str) -> Vec<Directed<Self::T>>;
    /// Fault / rare-condition counters that a thorough batch of this engine is expected to reach.
    fn expected_probes() -> &'static [&'static str] {
        &[]
    }
    fn rule() -> &'static str;
    fn components() -> serde_json::Value;
}
