//! Own PRNG (xoshiro256** seeded through splitmix64): the stream must not depend on a crate version.

#[derive(Clone)]
pub struct Rng {
    s: [u64; 4],
}

pub fn splitmix(x: &mut u64) -> u64 {
    *x = x.wrapping_add(0x9E37_79B9_7F4A_7C15);
    let mut z = *x;
    z = (z ^ (z >> 30)).wrapping_mul(0xBF58_476D_1CE4_E5B9);
    z = (z ^ (z >> 27)).wrapping_mul(0x94D0_49BB_1331_11EB);
    z ^ (z >> 31)
}

/// Seed of run `index` of a batch for `property` under the batch seed.
pub fn run_seed(seed: u64, property: &str, index: u64) -> u64 {
    let mut x = seed ^ 0xA076_1D64_78BD_642F;
    for b in property.bytes() {
        x = x.wrapping_mul(0x100_0000_01B3) ^ b as u64;
    }
    let mut y = splitmix(&mut x) ^ index.wrapping_mul(0xD6E8_FEB8_6659_FD93);
    splitmix(&mut y)
}

impl Rng {
    pub fn new(seed: u64) -> Self {
        let mut x = seed;
        let s = [splitmix(&mut x), splitmix(&mut x), splitmix(&mut x), splitmix(&mut x)];
        Self { s }
    }

    pub fn next(&mut self) -> u64 {
        let result = self.s[1].wrapping_mul(5).rotate_left(7).wrapping_mul(9);
        let t = self.s[1] << 17;
        self.s[2] ^= self.s[0];
        self.s[3] ^= self.s[1];
        self.s[1] ^= self.s[2];
        self.s[0] ^= self.s[3];
        self.s[2] ^= t;
        self.s[3] = self.s[3].rotate_left(45);
        result
    }

    /// Uniform in `0..n` (n > 0).
    pub fn below(&mut self, n: usize) -> usize {
        debug_assert!(n > 0);
        (self.next() % n as u64) as usize
    }

    pub fn range(&mut self, lo: usize, hi_incl: usize) -> usize {
        lo + self.below(hi_incl - lo + 1)
    }

    /// True with probability `pct` %.
    pub fn chance(&mut self, pct: u32) -> bool {
        (self.next() % 100) < pct as u64
    }

    pub fn pick<T: Copy>(&mut self, items: &[T]) -> T {
        items[self.below(items.len())]
    }

    /// Index drawn with the given weights.
    pub fn weighted(&mut self, weights: &[u32]) -> usize {
        let total: u32 = weights.iter().sum();
        debug_assert!(total > 0);
        let mut x = (self.next() % total as u64) as u32;
        for (i, w) in weights.iter().enumerate() {
            if x < *w {
                return i;
            }
            x -= *w;
        }
        weights.len() - 1
    }
}
