//! The simulator: real server and client apps, a harness-owned network, clock, life-cycle and workload
//! executor, plus the bookkeeping (relay log, snapshots, probes) the oracles read.

use std::collections::{BTreeMap, BTreeSet, VecDeque};
use std::panic::{AssertUnwindSafe, catch_unwind};

use bevy::prelude::*;
use bevy_replicon::{
    client::{ServerUpdateTick, confirm_history::ConfirmHistory},
    prelude::*,
    server::server_tick::ServerTick,
    shared::server_entity_map::ServerEntityMap,
};
use bytes::Bytes;

use crate::pool::{self, *};
use crate::steps::*;
use crate::wire::{self, CompRec, UpdateMsg};

#[derive(Clone, Debug, serde::Serialize, serde::Deserialize, PartialEq)]
pub struct Violation {
    pub prop: String,
    pub oracle: String,
    pub detail: String,
    pub step: usize,
}

pub struct Msg {
    pub bytes: Bytes,
    pub id: u64,
    pub sent_ms: u64,
    /// Client frames of the receiver that ran while the message was queued.
    pub held_frames: u32,
}

#[derive(Clone, Debug)]
pub struct MutMeta {
    pub msg_id: u64,
    pub index: u16,
    pub tick: u32,
    pub update_tick: u32,
    pub count: Option<usize>,
    pub ents: Vec<(u64, Vec<CompRec>)>,
    pub len: usize,
    pub sent_ms: u64,
    /// Simulated server time at which an ack naming this message was handed to the server.
    pub ack_delivered_ms: Option<u64>,
    /// A server frame ran after the ack was handed over.
    pub ack_processed: bool,
    pub delivered: bool,
    pub dropped: bool,
    pub applied: bool,
}

#[derive(Clone, Debug)]
pub struct SentEv {
    pub kind: SEv,
    pub msg_id: u64,
    pub flush_tick: u32,
    /// Number of update messages sent to this client up to and including the flush frame.
    pub upd_before: usize,
    /// Put on the wire in the server frame that is still being drained (`upd_before` not final yet).
    pub fresh: bool,
    pub stamp: Option<u32>,
    pub delivered: bool,
    pub dropped: bool,
    /// Client update tick in the first client frame in which the delivered event was due.
    pub due_u: Option<u32>,
    /// Whether the event's entity reference was resolvable on the client in that frame (None = no reference).
    pub due_resolvable: Option<bool>,
}

pub struct Session {
    pub id: u32,
    pub ce: Option<Entity>,
    pub client_up: bool,
    pub client_frames: u32,
    pub upd_sent: Vec<(u32, u64)>,
    pub upd_msgs: Vec<UpdateMsg>,
    pub upd_delivered: usize,
    pub upd_applied: usize,
    pub last_u: u32,
    pub last_conf: BTreeMap<u64, u32>,
    pub muts: BTreeMap<u64, MutMeta>,
    pub mut_by_index: BTreeMap<u16, u64>,
    pub vis: BTreeMap<u64, bool>,
    /// Entities that were despawned while the most recent setting for this client was "hidden".
    pub hidden_at_despawn: BTreeSet<u64>,
    pub o_sent: BTreeMap<u64, Vec<(u32, u32)>>,
    pub p_sent: BTreeMap<u64, u32>,
    pub p_taint: BTreeSet<u64>,
    /// (server entity, kind) -> first tick from which comparisons are valid again (u32::MAX = tainted).
    pub ent_taint: BTreeMap<(u64, Kind), u32>,
    /// Mutate message id -> tainted references it re-sends: the taint ends only if the client really writes
    /// that message's data for the entity (an unreliable re-send may be lost or skipped as outdated).
    pub heal_pending: BTreeMap<u64, Vec<(u64, Kind)>>,
    /// References carried by the mutate messages of the server frame being drained (message id, tick,
    /// cells): their effect on the taints is applied after the frame's update message, whatever the order
    /// in which the library emitted the two.
    pub frame_refs: Vec<(u64, u32, Vec<(u64, Kind)>)>,
    pub sev_sent: BTreeMap<u32, Vec<SentEv>>,
    pub sev_seen: Vec<(SEv, u32)>,
    /// Value of the global event counter when the session started.
    pub first_seq: u32,
    pub authorized: bool,
    pub auth_tick_checked: bool,
    pub first_update_checked: bool,
    pub start_step: usize,
    pub server_frames_at_connect: u64,
    /// Ticks of replication messages delivered to the client in this session.
    pub delivered_ticks: BTreeSet<u32>,
    /// Pre-spawn mappings registered on the server: server entity -> (client entity, cslot).
    pub premap: BTreeMap<u64, (u64, u8)>,
    pub disconnect_requested: bool,
    pub mismatch_sent: u32,
    pub hash_delivered: bool,
    pub hash_delivered_frame: Option<u64>,
    pub wrong_hash: bool,
    /// Per-tick grouping of mutate messages for the C10 oracle.
    pub tick_msgs: BTreeMap<u32, Vec<u64>>,
    pub idle_replication_msgs: u32,
    /// Known finding F20: an update message with tick 0 was sent in this session.
    pub tick0: bool,
    /// Entities whose mutations may have been applied (and dropped) before the tick-0 update message.
    pub f20_ents: BTreeSet<u64>,
    /// Reference model of every held entity's confirmation history: server entity -> confirmed ticks.
    pub conf: BTreeMap<u64, BTreeSet<u32>>,
    /// Server entities whose client copy carries the history marker, and the model of their `HistA`.
    pub pred: BTreeSet<u64>,
    pub hist: BTreeMap<u64, Vec<(u32, u32)>>,
    /// The session follows a disconnect of the same client or a server restart (C09 territory).
    pub after_crash: bool,
    /// Entities visible to the client at the first tick at which it was authorised.
    pub initial: Option<BTreeSet<u64>>,
    /// Known finding F20, narrowed: (entity, kind) cells whose value may have been dropped.
    /// Value: version of the write that was dropped; the cell is trusted again once the client holds
    /// that or a later write.
    pub f20_cells: BTreeMap<(u64, Kind), u32>,
}

impl Session {
    fn new(id: u32, ce: Entity, first_seq: u32, step: usize, frames: u64) -> Self {
        Self {
            id,
            ce: Some(ce),
            client_up: true,
            client_frames: 0,
            upd_sent: vec![],
            upd_msgs: vec![],
            upd_delivered: 0,
            upd_applied: 0,
            last_u: 0,
            last_conf: BTreeMap::new(),
            muts: BTreeMap::new(),
            mut_by_index: BTreeMap::new(),
            vis: BTreeMap::new(),
            hidden_at_despawn: BTreeSet::new(),
            o_sent: BTreeMap::new(),
            p_sent: BTreeMap::new(),
            p_taint: BTreeSet::new(),
            ent_taint: BTreeMap::new(),
            heal_pending: BTreeMap::new(),
            frame_refs: Vec::new(),
            sev_sent: BTreeMap::new(),
            sev_seen: vec![],
            first_seq,
            authorized: false,
            auth_tick_checked: false,
            first_update_checked: false,
            start_step: step,
            server_frames_at_connect: frames,
            delivered_ticks: BTreeSet::new(),
            premap: BTreeMap::new(),
            disconnect_requested: false,
            mismatch_sent: 0,
            hash_delivered: false,
            hash_delivered_frame: None,
            wrong_hash: false,
            tick_msgs: BTreeMap::new(),
            idle_replication_msgs: 0,
            tick0: false,
            f20_ents: BTreeSet::new(),
            conf: BTreeMap::new(),
            pred: BTreeSet::new(),
            hist: BTreeMap::new(),
            after_crash: false,
            initial: None,
            f20_cells: BTreeMap::new(),
        }
    }
    pub fn up(&self) -> bool {
        self.ce.is_some() && self.client_up
    }
}

pub struct ClientNode {
    pub app: App,
    pub sess: Option<Session>,
    pub pre: Vec<Option<Entity>>,
    pub s2c: Vec<VecDeque<Msg>>,
    pub c2s: Vec<VecDeque<Msg>>,
    pub frames: u64,
    pub panicked: bool,
    /// Frame counter when the client end was closed (a reconnect needs at least one frame after it).
    pub closed_at: Option<u64>,
    /// Most recent real message per uplink channel (raw material for structure-aware mutation).
    pub last_c2s: Vec<Option<Bytes>>,
    /// Raw bytes were injected in this client's name at some point of the run.
    pub ever_injected: bool,
}

#[derive(Clone, Debug)]
pub struct Snap {
    pub ents: BTreeMap<u64, Comps>,
    /// Per client: the set of entities visible to it (None = not authorised at this tick).
    pub vis: Vec<Option<BTreeSet<u64>>>,
    pub frame: u64,
    /// Link groups (connected components over LinkTo among replicated entities), as sorted lists.
    pub groups: Vec<Vec<u64>>,
}

#[derive(Clone, Debug)]
pub struct SEmit {
    pub seq: u32,
    pub kind: SEv,
    pub mode: Mode,
    pub target: Option<u64>,
    pub step: usize,
    /// Server frame (count) that buffered / sent the event; None until it ran.
    pub frame: Option<u64>,
    pub dropped_not_running: bool,
    /// (client, session id) connected at the emission frame.
    pub connected_at_emit: Vec<(usize, u32)>,
    /// Final recipients (client, session id), decided at the flush frame.
    pub recipients: Option<Vec<(usize, u32)>>,
    pub flush_tick: Option<u32>,
    pub local_seen: u32,
}

#[derive(Clone, Debug)]
pub struct CEmit {
    pub seq: u32,
    pub kind: CEv,
    pub client: usize,
    pub session: Option<u32>,
    /// Client was connected and had run a frame in connected state when the event was written.
    pub eligible: bool,
    pub ent: Option<u64>,
    pub expected_server_ent: Option<u64>,
    pub on_wire: u32,
    pub wire_ce: Option<u64>,
    pub delivered: bool,
    pub lost_in_flight: bool,
    pub seen: Vec<(u64, Option<u64>)>,
    pub client_frame_after: bool,
}

#[derive(Default, Clone, Debug, serde::Serialize, serde::Deserialize)]
pub struct Stats {
    pub steps: u64,
    pub server_frames: u64,
    pub client_frames: u64,
    pub sim_ms: u64,
    pub ticks: u64,
    pub ops: BTreeMap<String, u64>,
    pub faults: BTreeMap<String, u64>,
    pub probes: BTreeMap<String, u64>,
    pub messages: u64,
    pub bytes: u64,
    pub other_property_hits: BTreeMap<String, u64>,
    pub sigs: BTreeSet<u64>,
    pub nontrivial_sigs: BTreeSet<u64>,
    pub progress_runs: u64,
    /// Order-independent sum of per-run digests (relayed bytes, counters, violations): the determinism self-check.
    #[serde(default)]
    pub digest: u64,
}

pub fn fnv(mut h: u64, bytes: &[u8]) -> u64 {
    if h == 0 {
        h = 0xcbf2_9ce4_8422_2325;
    }
    for b in bytes {
        h ^= *b as u64;
        h = h.wrapping_mul(0x100_0000_01b3);
    }
    h
}

impl Stats {
    pub fn bump(map: &mut BTreeMap<String, u64>, k: &str) {
        *map.entry(k.to_string()).or_insert(0) += 1;
    }
    pub fn fault(&mut self, k: &str) {
        Self::bump(&mut self.faults, k);
    }
    pub fn probe(&mut self, k: &str) {
        Self::bump(&mut self.probes, k);
    }
    pub fn merge(&mut self, o: &Stats) {
        self.steps += o.steps;
        self.server_frames += o.server_frames;
        self.client_frames += o.client_frames;
        self.sim_ms += o.sim_ms;
        self.ticks += o.ticks;
        self.messages += o.messages;
        self.bytes += o.bytes;
        self.progress_runs += o.progress_runs;
        self.digest = self.digest.wrapping_add(o.digest);
        for (k, v) in &o.ops {
            *self.ops.entry(k.clone()).or_insert(0) += v;
        }
        for (k, v) in &o.faults {
            *self.faults.entry(k.clone()).or_insert(0) += v;
        }
        for (k, v) in &o.probes {
            *self.probes.entry(k.clone()).or_insert(0) += v;
        }
        for (k, v) in &o.other_property_hits {
            *self.other_property_hits.entry(k.clone()).or_insert(0) += v;
        }
        self.sigs.extend(o.sigs.iter().copied());
        self.nontrivial_sigs.extend(o.nontrivial_sigs.iter().copied());
    }
}

pub struct Sim {
    pub prof: Profile,
    pub chans: Chans,
    pub fns: BTreeMap<usize, Kind>,
    pub server: App,
    pub server_panicked: bool,
    pub running: bool,
    pub ever_started: bool,
    pub clients: Vec<ClientNode>,
    pub slots: Vec<Option<Entity>>,
    pub ver: u32,
    pub seq: u32,
    pub msg_id: u64,
    pub session_ctr: u32,
    pub ver_owner: BTreeMap<u32, u64>,
    pub snaps: BTreeMap<u32, Snap>,
    pub server_frames: u64,
    pub now_ms: u64,
    pub last_tick: Option<u32>,
    pub sev: Vec<SEmit>,
    pub cev: Vec<CEmit>,
    pub step_no: usize,
    pub healed: bool,
    pub violations: Vec<Violation>,
    pub stats: Stats,
    pub last_op: u8,
    pub last_fault: u8,
    pub inject_pending: bool,
    pub fault_fired: bool,
    pub progressed: bool,
    /// Entities despawned on the server (to recognise stale references).
    pub dead: BTreeSet<u64>,
    pub harness_error: Option<String>,
    /// Messages of the library that the independent decoder could not parse. The run goes on (without the
    /// decoder-based bookkeeping for them); they count as a harness error only if no oracle fires.
    pub decode_errors: Vec<String>,
    /// Largest allocation request seen in a server frame without / with injected input.
    pub max_alloc_clean: usize,
    pub max_alloc_inject: usize,
    pub inject_len: usize,
    /// P written and not yet snapshotted, per entity (for the F4 taint).
    pub trace_log: Vec<String>,
    pub verbose: bool,
    /// Directed scenarios of known findings run with the cause predicates switched off.
    pub no_taint: bool,
    pub pending_emits: Vec<(SEv, Mode, Option<u8>)>,
    pub stopped_at: Option<u64>,
    pub stop_pending: bool,
    pub started_at: Option<u64>,
    pub resume_phase: bool,
    /// Slots that had a structural operation since the last replication tick.
    pub struct_since_tick: BTreeMap<u8, u32>,
    pub cev_last_seen: BTreeMap<(u64, CEv), u32>,
}

pub fn silent_panics() {
    std::panic::set_hook(Box::new(|_| {}));
}

fn guarded_update(app: &mut App) -> Result<(), String> {
    catch_unwind(AssertUnwindSafe(|| app.update())).map_err(|e| {
        if let Some(s) = e.downcast_ref::<String>() {
            s.clone()
        } else if let Some(s) = e.downcast_ref::<&str>() {
            s.to_string()
        } else {
            "panic".to_string()
        }
    })
}

impl Sim {
    pub fn new(prof: &Profile) -> Sim {
        let server = build_app(&prof.app, prof.server_role);
        let fns = server.world().resource::<FnsMap>().0.clone();
        let chans = Chans { proto: prof.app.auth == 0 };
        let mut clients = Vec::new();
        for i in 0..prof.clients.clamp(1, 3) {
            let mut cfg = prof.app.clone();
            if prof.wrong_proto & (1 << i) != 0 && cfg.auth == 0 {
                cfg.proto_variant = prof.wrong_variant.clamp(1, 4) as u32;
            }
            let app = build_app(&cfg, prof.client_role);
            clients.push(ClientNode {
                app,
                sess: None,
                pre: vec![None; 4],
                s2c: (0..chans.n_server()).map(|_| VecDeque::new()).collect(),
                c2s: (0..chans.n_client()).map(|_| VecDeque::new()).collect(),
                frames: 0,
                panicked: false,
                closed_at: None,
                last_c2s: vec![None; chans.n_client()],
                ever_injected: false,
            });
        }
        Sim {
            prof: prof.clone(),
            chans,
            fns,
            server,
            server_panicked: false,
            running: false,
            ever_started: false,
            clients,
            slots: vec![None; prof.slots.clamp(1, 8) as usize],
            ver: 0,
            seq: 0,
            msg_id: 0,
            session_ctr: 0,
            ver_owner: BTreeMap::new(),
            snaps: BTreeMap::new(),
            server_frames: 0,
            now_ms: 0,
            last_tick: None,
            sev: vec![],
            cev: vec![],
            step_no: 0,
            healed: false,
            violations: vec![],
            stats: Stats::default(),
            last_op: 0,
            last_fault: 0,
            inject_pending: false,
            fault_fired: false,
            progressed: false,
            dead: BTreeSet::new(),
            harness_error: None,
            decode_errors: vec![],
            max_alloc_clean: 0,
            max_alloc_inject: 0,
            inject_len: 0,
            trace_log: vec![],
            verbose: false,
            no_taint: false,
            pending_emits: vec![],
            stopped_at: None,
            stop_pending: false,
            started_at: None,
            resume_phase: false,
            struct_since_tick: BTreeMap::new(),
            cev_last_seen: BTreeMap::new(),
        }
    }

    pub fn violate(&mut self, prop: &str, oracle: &str, detail: String) {
        if self.violations.len() < 256 {
            self.violations.push(Violation {
                prop: prop.into(),
                oracle: oracle.into(),
                detail,
                step: self.step_no,
            });
        }
    }

    pub fn dead(&self) -> bool {
        self.server_panicked || self.clients.iter().any(|c| c.panicked) || self.harness_error.is_some()
    }

    fn next_ver(&mut self, ent: Entity) -> u32 {
        self.ver += 1;
        self.ver_owner.insert(self.ver, ent.to_bits());
        self.ver
    }

    pub fn slot_ent(&self, slot: u8) -> Option<Entity> {
        self.slots.get(slot as usize).copied().flatten()
    }

    pub fn slot_of(&self, bits: u64) -> Option<u8> {
        self.slots.iter().position(|s| s.map(|e| e.to_bits()) == Some(bits)).map(|i| i as u8)
    }

    pub fn replicated(&self, e: Entity) -> bool {
        self.server.world().get_entity(e).map(|r| r.contains::<Replicated>()).unwrap_or(false)
    }

    /// Harness-side visibility record (deliberately not `ClientVisibility::is_visible`).
    pub fn visible(&self, c: usize, bits: u64) -> bool {
        let rec = self.clients[c].sess.as_ref().and_then(|s| s.vis.get(&bits).copied());
        match self.prof.app.vis {
            1 => rec.unwrap_or(true),
            2 => rec.unwrap_or(false),
            _ => true,
        }
    }

    pub fn server_tick(&self) -> u32 {
        self.server.world().get_resource::<ServerTick>().map(|t| t.get()).unwrap_or(0)
    }

    pub fn is_authorized(&self, c: usize) -> bool {
        let Some(ce) = self.clients[c].sess.as_ref().and_then(|s| s.ce) else {
            return false;
        };
        self.server.world().get_entity(ce).map(|r| r.contains::<AuthorizedClient>()).unwrap_or(false)
    }

    pub fn log(&mut self, s: String) {
        if self.verbose {
            self.trace_log.push(s);
        }
    }

    // -------------------------------------------------------------------------------------
    // Steps

    pub fn apply(&mut self, step: &Step) {
        self.stats.steps += 1;
        Stats::bump(&mut self.stats.ops, step.name());
        let struct_slot = match step {
            Step::Spawn { slot, .. } | Step::Despawn { slot } | Step::MarkerOff { slot } | Step::MarkerOn { slot } | Step::Insert { slot, .. } | Step::Remove { slot, .. } | Step::SetVis { slot, .. } => Some(*slot),
            _ => None,
        };
        if let Some(slot) = struct_slot {
            let n = self.struct_since_tick.entry(slot).or_insert(0);
            *n += 1;
            if *n == 2 {
                self.stats.probe("two_struct_ops_one_window_same_slot");
            }
        }
        match step {
            Step::Spawn { slot, kinds, marker } => self.op_spawn(*slot, kinds, *marker),
            Step::Despawn { slot } => {
                if let Some(e) = self.slot_ent(*slot) {
                    self.server.world_mut().entity_mut(e).despawn();
                    self.slots[*slot as usize] = None;
                    self.dead.insert(e.to_bits());
                    for c in &mut self.clients {
                        if let Some(s) = c.sess.as_mut() {
                            if s.vis.remove(&e.to_bits()) == Some(false) {
                                s.hidden_at_despawn.insert(e.to_bits());
                            }
                        }
                    }
                    self.last_op = 2;
                }
            }
            Step::MarkerOff { slot } => {
                if let Some(e) = self.slot_ent(*slot) {
                    if self.replicated(e) {
                        self.server.world_mut().entity_mut(e).remove::<Replicated>();
                        self.last_op = 3;
                    }
                }
            }
            Step::MarkerOn { slot } => {
                if let Some(e) = self.slot_ent(*slot) {
                    if !self.replicated(e) {
                        self.server.world_mut().entity_mut(e).insert(Replicated);
                        self.last_op = 4;
                    }
                }
            }
            Step::MarkerReinsert { slot } => {
                if let Some(e) = self.slot_ent(*slot) {
                    if self.replicated(e) {
                        self.server.world_mut().entity_mut(e).insert(Replicated);
                        self.stats.probe("marker_reinserted");
                    }
                }
            }
            Step::Insert { slot, kind, extra } => {
                if let Some(e) = self.slot_ent(*slot) {
                    if !kind.is_entity() {
                        let v = self.next_ver(e);
                        insert_kind(self.server.world_mut(), e, *slot, *kind, v, *extra as usize);
                        self.last_op = 5;
                    }
                }
            }
            Step::Remove { slot, kind } => {
                if let Some(e) = self.slot_ent(*slot) {
                    remove_kind(self.server.world_mut(), e, *kind);
                    self.last_op = 6;
                }
            }
            Step::Mutate { slot, kind, extra } => {
                if let Some(e) = self.slot_ent(*slot) {
                    if !kind.is_entity() && has_kind(self.server.world(), e, *kind) {
                        let v = self.next_ver(e);
                        mutate_kind(self.server.world_mut(), e, *slot, *kind, v, *extra as usize);
                        self.last_op = 7;
                    }
                }
            }
            Step::Point { slot, kind, target } => {
                if let (Some(e), Some(t)) = (self.slot_ent(*slot), self.slot_ent(*target)) {
                    if e != t && kind.is_entity() {
                        insert_entity_kind(self.server.world_mut(), e, *kind, t);
                        self.last_op = 8;
                    }
                }
            }
            Step::SetVis { client, slot, visible } => self.op_set_vis(*client as usize, *slot, *visible),
            Step::MapPreSpawn { client, slot, cslot } => self.op_map_prespawn(*client as usize, *slot, *cslot),
            // Written into the world at the start of the next server frame (the "Update" of that
            // frame), after the connection changes that precede the frame (its "PreUpdate").
            Step::Emit { ev, mode, target } => self.pending_emits.push((*ev, *mode, *target)),
            Step::TickJump { k } => {
                if self.running {
                    self.server.world_mut().resource_mut::<ServerTick>().increment_by(*k);
                    self.stats.fault("tick_jump");
                    self.last_fault = 1;
                }
            }
            Step::ServerFrame { tick, dt_ms } => self.server_frame(*tick, *dt_ms),
            Step::ClientEmit { client, ev, target } => self.op_client_emit(*client as usize, *ev, *target),
            Step::PreSpawn { client, cslot } => {
                let c = *client as usize;
                if c < self.clients.len() && (*cslot as usize) < 4 && self.clients[c].pre[*cslot as usize].is_none() {
                    let e = self.clients[c].app.world_mut().spawn(Noise(7)).id();
                    self.clients[c].pre[*cslot as usize] = Some(e);
                }
            }
            Step::DespawnLocal { client, cslot } => {
                let c = *client as usize;
                if c < self.clients.len() && (*cslot as usize) < 4 {
                    if let Some(e) = self.clients[c].pre[*cslot as usize] {
                        if let Ok(w) = self.clients[c].app.world_mut().get_entity_mut(e) {
                            // Only "before arrival": once adopted, the entity belongs to replication.
                            if w.contains::<Replicated>() {
                                return;
                            }
                            w.despawn();
                            self.stats.probe("prespawn_despawned_locally");
                        }
                    }
                }
            }
            Step::ClientFrame { client, dt_ms } => self.client_frame(*client as usize, *dt_ms),
            Step::ClientMark { client, slot } => {
                let c = *client as usize;
                if c < self.clients.len() && self.prof.app.history {
                    if let Some(se) = self.slot_ent(*slot) {
                        let up = self.clients[c].sess.as_ref().map(|s| s.client_up).unwrap_or(false);
                        let cent = self.clients[c].app.world().get_resource::<ServerEntityMap>().and_then(|m| m.to_client().get(&se).copied());
                        if let (true, Some(ce)) = (up, cent) {
                            let w = self.clients[c].app.world_mut();
                            if let Ok(mut e) = w.get_entity_mut(ce) {
                                if e.contains::<ConfirmHistory>() && !e.contains::<Pred>() {
                                    e.insert(Pred);
                                    self.clients[c].sess.as_mut().unwrap().pred.insert(se.to_bits());
                                    self.stats.probe("history_marker_set");
                                }
                            }
                        }
                    }
                }
            }
            Step::Deliver { dir, client, chan, pick } => {
                self.deliver(*dir, *client as usize, *chan, Some(*pick), false);
            }
            Step::DeliverAll { dir, client, chan } => {
                while self.deliver(*dir, *client as usize, *chan, Some(0), false) {}
            }
            Step::Drop { dir, client, chan, pick } => {
                self.deliver(*dir, *client as usize, *chan, Some(*pick), true);
            }
            Step::Connect { client } => self.op_connect(*client as usize),
            Step::Authorize { client } => {
                let c = *client as usize;
                if c < self.clients.len() && self.prof.app.auth == 2 {
                    if let Some(ce) = self.clients[c].sess.as_ref().and_then(|s| s.ce) {
                        if let Ok(mut w) = self.server.world_mut().get_entity_mut(ce) {
                            if !w.contains::<AuthorizedClient>() {
                                w.insert(AuthorizedClient);
                                self.stats.fault("late_auth");
                            }
                        }
                    }
                }
            }
            Step::Disconnect { client, side } => self.op_disconnect(*client as usize, *side),
            Step::ServerStop => {
                // A stop is observed by the library only if it saw the server running in some frame.
                let seen_running = self.started_at.map(|f| self.server_frames > f).unwrap_or(false);
                if self.running && seen_running {
                    self.server.world_mut().resource_mut::<RepliconServer>().set_running(false);
                    self.running = false;
                    self.stopped_at = Some(self.server_frames);
                    self.stats.fault("server_stop");
                    self.last_fault = 5;
                    self.fault_fired = true;
                    let inflight = self.clients.iter().any(|c| c.s2c.iter().any(|q| !q.is_empty()));
                    if inflight {
                        self.stats.probe("stop_with_messages_in_flight");
                    }
                    // The library itself removes the client entities in the next frame (its `reset`);
                    // the harness only stops carrying messages towards the stopped server.
                    self.stop_pending = true;
                }
            }
            Step::ServerStart => {
                let frame_between = self.stopped_at.map(|f| self.server_frames > f).unwrap_or(true);
                if !self.running && frame_between {
                    self.server.world_mut().resource_mut::<RepliconServer>().set_running(true);
                    self.running = true;
                    self.started_at = Some(self.server_frames);
                    if self.ever_started {
                        self.stats.fault("server_restart");
                    }
                    self.ever_started = true;
                    self.snaps.clear();
                    self.last_tick = None;
                }
            }
            Step::Inject { client, channel, bytes } => self.op_inject(*client as usize, *channel as usize, bytes),
            Step::InjectMut { client, chan, kind, a, b } => {
                let c = *client as usize;
                if c < self.clients.len() {
                    if let Some(ch) = self.chan_id(Dir::C2S, *chan) {
                        let raw = self.clients[c].c2s[ch].front().map(|m| m.bytes.clone()).or_else(|| self.clients[c].last_c2s[ch].clone());
                        if let Some(m) = raw {
                            let mut bytes = m.to_vec();
                            let pos = if bytes.is_empty() { 0 } else { *a as usize % bytes.len() };
                            match kind % 5 {
                                0 if !bytes.is_empty() => bytes[pos] ^= 1 << (b % 8),
                                1 => bytes.truncate(pos),
                                2 => bytes.extend(std::iter::repeat(*b).take(*a as usize % 16)),
                                3 if !bytes.is_empty() => bytes[pos] = *b,
                                _ => {
                                    let tail = bytes.split_off(pos);
                                    bytes.extend([0xff, 0xff, 0xff, 0xff, 0xff, 0xff, 0xff, 0xff, 0xff, 0x01]);
                                    bytes.extend(tail);
                                }
                            }
                            self.stats.fault("mutated_real_message");
                            self.op_inject(c, ch, &bytes);
                        }
                    }
                }
            }
            Step::Heal => self.heal(),
        }
    }

    fn op_spawn(&mut self, slot: u8, kinds: &[Kind], marker: bool) {
        let s = slot as usize;
        if s >= self.slots.len() || self.slots[s].is_some() {
            return;
        }
        let e = if marker {
            self.server.world_mut().spawn(Replicated).id()
        } else {
            self.server.world_mut().spawn(Noise(1)).id()
        };
        self.slots[s] = Some(e);
        for k in kinds {
            if !k.is_entity() {
                let v = self.next_ver(e);
                let extra = if *k == Kind::Big { 8 + (v as usize * 37) % 120 } else { 0 };
                insert_kind(self.server.world_mut(), e, slot, *k, v, extra);
            }
        }
        self.last_op = 1;
    }

    fn op_set_vis(&mut self, c: usize, slot: u8, visible: bool) {
        if c >= self.clients.len() || self.prof.app.vis == 0 {
            return;
        }
        let Some(e) = self.slot_ent(slot) else { return };
        let Some(ce) = self.clients[c].sess.as_ref().and_then(|s| s.ce) else { return };
        let Some(mut v) = self.server.world_mut().get_mut::<ClientVisibility>(ce) else { return };
        v.set_visibility(e, visible);
        let sess = self.clients[c].sess.as_mut().unwrap();
        let before = sess.vis.insert(e.to_bits(), visible);
        if before.is_some() && before != Some(visible) {
            self.stats.probe("vis_toggled_again");
        }
        self.last_op = 9;
    }

    fn op_map_prespawn(&mut self, c: usize, slot: u8, cslot: u8) {
        if c >= self.clients.len() || cslot as usize >= 4 {
            return;
        }
        let Some(e) = self.slot_ent(slot) else { return };
        let Some(pre) = self.clients[c].pre[cslot as usize] else { return };
        let Some(ce) = self.clients[c].sess.as_ref().and_then(|s| s.ce) else { return };
        // Contract of the property: the mapping is registered no later than the tick in which the
        // entity first becomes visible to the client => only for entities never sent to it yet.
        let sess = self.clients[c].sess.as_ref().unwrap();
        let bits = e.to_bits();
        let already_sent = sess.upd_msgs.iter().any(|m| m.changes.iter().any(|(x, _)| *x == bits))
            || sess.premap.contains_key(&bits)
            || sess.premap.values().any(|(p, _)| *p == pre.to_bits());
        if already_sent {
            return;
        }
        let Some(mut map) = self.server.world_mut().get_mut::<ClientEntityMap>(ce) else { return };
        map.insert(e, pre);
        self.clients[c].sess.as_mut().unwrap().premap.insert(bits, (pre.to_bits(), cslot));
        self.stats.probe("prespawn_mapped");
    }

    fn mode_of(&self, mode: Mode) -> Option<SendMode> {
        let n = self.clients.len();
        let ent = |i: u8| -> Option<Entity> {
            if i as usize >= n {
                Some(SERVER)
            } else {
                self.clients[i as usize].sess.as_ref().and_then(|s| s.ce)
            }
        };
        Some(match mode {
            Mode::Broadcast => SendMode::Broadcast,
            Mode::Except(i) => SendMode::BroadcastExcept(ent(i)?),
            Mode::Direct(i) => SendMode::Direct(ent(i)?),
        })
    }

    fn op_emit(&mut self, ev: SEv, mode: Mode, target: Option<u8>) {
        let Some(send_mode) = self.mode_of(mode) else { return };
        self.seq += 1;
        let seq = self.seq;
        let tgt = target.and_then(|t| self.slot_ent(t));
        let w = self.server.world_mut();
        match ev {
            SEv::Ord => {
                w.send_event(ToClients { mode: send_mode, event: SeOrd { seq, ent: tgt } });
            }
            SEv::Unord => {
                w.send_event(ToClients { mode: send_mode, event: SeUnord { seq } });
            }
            SEv::Unrel => {
                w.send_event(ToClients { mode: send_mode, event: SeUnrel { seq } });
            }
            SEv::Ind => {
                w.send_event(ToClients { mode: send_mode, event: SeInd { seq } });
            }
            SEv::Trig => match tgt {
                Some(t) => w.server_trigger_targets(ToClients { mode: send_mode, event: StTrig { seq } }, t),
                None => w.server_trigger(ToClients { mode: send_mode, event: StTrig { seq } }),
            },
        }
        let target_bits = if matches!(ev, SEv::Ord | SEv::Trig) { tgt.map(|e| e.to_bits()) } else { None };
        self.sev.push(SEmit {
            seq,
            kind: ev,
            mode,
            target: target_bits,
            step: self.step_no,
            frame: None,
            dropped_not_running: false,
            connected_at_emit: vec![],
            recipients: None,
            flush_tick: None,
            local_seen: 0,
        });
        self.last_op = 10;
    }

    fn op_client_emit(&mut self, c: usize, ev: CEv, target: Option<u8>) {
        if c >= self.clients.len() {
            return;
        }
        self.seq += 1;
        let seq = self.seq;
        // Entity argument: the client's copy of a server slot, if it has one.
        let cent = target.and_then(|t| self.slot_ent(t)).and_then(|se| {
            self.clients[c]
                .app
                .world()
                .get_resource::<ServerEntityMap>()
                .and_then(|m| m.to_client().get(&se).copied())
        });
        let node = &mut self.clients[c];
        let connected = node
            .app
            .world()
            .get_resource::<RepliconClient>()
            .map(|r| r.is_connected())
            .unwrap_or(false);
        let eligible = connected && node.sess.as_ref().map(|s| s.client_up && s.client_frames > 0).unwrap_or(false);
        let session = node.sess.as_ref().filter(|s| s.client_up).map(|s| s.id);
        let mut ent = None;
        let w = node.app.world_mut();
        match ev {
            CEv::Ord => {
                w.send_event(CeOrd { seq });
            }
            CEv::Map => {
                let Some(e) = cent else {
                    self.seq -= 1;
                    return;
                };
                ent = Some(e.to_bits());
                w.send_event(CeMap { seq, ent: e });
            }
            CEv::Trig => match cent {
                Some(e) => {
                    ent = Some(e.to_bits());
                    w.client_trigger_targets(CtTrig { seq }, e)
                }
                None => w.client_trigger(CtTrig { seq }),
            },
            CEv::Unord => {
                w.send_event(CeUnord { seq });
            }
            CEv::Unrel => {
                w.send_event(CeUnrel { seq });
            }
        }
        self.cev.push(CEmit {
            seq,
            kind: ev,
            client: c,
            session,
            eligible,
            ent,
            expected_server_ent: None,
            on_wire: 0,
            wire_ce: None,
            delivered: false,
            lost_in_flight: false,
            seen: vec![],
            client_frame_after: false,
        });
    }

    fn op_connect(&mut self, c: usize) {
        if c >= self.clients.len() || !self.running {
            return;
        }
        // A previous session must be fully closed.
        if let Some(s) = self.clients[c].sess.as_ref() {
            if s.ce.is_some() || s.client_up {
                return;
            }
        }
        // The property quantifies over reconnects after at least one frame.
        if let Some(f) = self.clients[c].closed_at {
            if self.clients[c].frames <= f {
                return;
            }
        }
        let reconnect = self.clients[c].sess.is_some();
        // As a game would: remove what the previous session left behind.
        if reconnect {
            let w = self.clients[c].app.world_mut();
            let olds: Vec<Entity> = w.query_filtered::<Entity, With<Replicated>>().iter(w).collect();
            for o in olds {
                w.entity_mut(o).despawn();
            }
            let node = &mut self.clients[c];
            for q in node.s2c.iter_mut().chain(node.c2s.iter_mut()) {
                q.clear();
            }
            self.stats.fault("reconnect");
        }
        let max_size = self.prof.max_size[c.min(2)].max(16);
        let ce = self.server.world_mut().spawn(ConnectedClient { max_size }).id();
        self.clients[c]
            .app
            .world_mut()
            .resource_mut::<RepliconClient>()
            .set_status(RepliconClientStatus::Connected);
        self.session_ctr += 1;
        let mut sess = Session::new(self.session_ctr, ce, self.seq + 1, self.step_no, self.server_frames);
        sess.after_crash = reconnect || self.stats.faults.contains_key("server_restart");
        self.clients[c].sess = Some(sess);
        if max_size < 1200 {
            self.stats.fault("small_max_size");
        }
    }

    fn close_server_end(&mut self, c: usize) {
        self.close_server_end_opt(c, true)
    }

    fn close_server_end_opt(&mut self, c: usize, despawn: bool) {
        let Some(s) = self.clients[c].sess.as_mut() else { return };
        if let Some(ce) = s.ce.take() {
            if despawn {
                if let Ok(w) = self.server.world_mut().get_entity_mut(ce) {
                    w.despawn();
                }
            }
            // Client events that were still travelling are lost with the session.
            for e in self.cev.iter_mut().filter(|e| e.client == c && e.session == Some(s.id)) {
                if e.on_wire > 0 && !e.delivered {
                    e.lost_in_flight = true;
                }
            }
            for q in self.clients[c].c2s.iter_mut() {
                q.clear();
            }
        }
        self.maybe_teardown(c);
    }

    fn close_client_end(&mut self, c: usize) {
        let Some(s) = self.clients[c].sess.as_mut() else { return };
        if s.client_up {
            s.client_up = false;
            self.clients[c].closed_at = Some(self.clients[c].frames);
            self.clients[c]
                .app
                .world_mut()
                .resource_mut::<RepliconClient>()
                .set_status(RepliconClientStatus::Disconnected);
            for q in self.clients[c].s2c.iter_mut() {
                q.clear();
            }
        }
        self.maybe_teardown(c);
    }

    fn maybe_teardown(&mut self, c: usize) {
        let Some(s) = self.clients[c].sess.as_ref() else { return };
        if s.ce.is_none() && !s.client_up {
            let node = &mut self.clients[c];
            for q in node.s2c.iter_mut().chain(node.c2s.iter_mut()) {
                q.clear();
            }
        }
    }

    fn op_disconnect(&mut self, c: usize, side: u8) {
        if c >= self.clients.len() {
            return;
        }
        let Some(s) = self.clients[c].sess.as_ref() else { return };
        if s.ce.is_none() && !s.client_up {
            return;
        }
        let inflight = self.clients[c].s2c.iter().any(|q| !q.is_empty())
            || self.clients[c].c2s.iter().any(|q| !q.is_empty());
        if inflight {
            self.stats.probe("disconnect_with_messages_in_flight");
        }
        let buffered = self.clients[c]
            .sess
            .as_ref()
            .map(|s| s.muts.values().any(|m| m.delivered && !m.applied))
            .unwrap_or(false);
        if buffered {
            self.stats.probe("disconnect_with_buffered_mutations");
        }
        self.stats.fault("disconnect");
        self.last_fault = 4;
        self.fault_fired = true;
        match side {
            1 => self.close_client_end(c),
            2 => self.close_server_end(c),
            _ => {
                self.close_client_end(c);
                self.close_server_end(c);
            }
        }
    }

    fn op_inject(&mut self, c: usize, channel: usize, bytes: &[u8]) {
        if c >= self.clients.len() || !self.running || channel >= self.chans.n_client() {
            return;
        }
        let Some(ce) = self.clients[c].sess.as_ref().and_then(|s| s.ce) else { return };
        self.server
            .world_mut()
            .resource_mut::<RepliconServer>()
            .insert_received(ce, channel, Bytes::copy_from_slice(bytes));
        self.inject_pending = true;
        let junk_ack_only = channel == Chans::ACKS && bytes.len() % 2 == 0 && !bytes.is_empty() && bytes.chunks(2).all(|p| u16::from_le_bytes([p[0], p[1]]) >= 0x4000);
        if junk_ack_only {
            self.stats.fault("junk_ack");
            self.fault_fired = true;
            return;
        }
        self.clients[c].ever_injected = true;
        self.inject_len = self.inject_len.max(bytes.len());
        self.stats.fault("byzantine_bytes");
        self.last_fault = 6;
        self.fault_fired = true;
    }

    fn chan_id(&self, dir: Dir, chan: Chan) -> Option<usize> {
        match (dir, chan) {
            (Dir::S2C, Chan::Updates) => Some(Chans::UPDATES),
            (Dir::S2C, Chan::Mutations) => Some(Chans::MUTATIONS),
            (Dir::S2C, Chan::Mismatch) => self.chans.mismatch(),
            (Dir::S2C, Chan::SEv(k)) => Some(self.chans.sev(k)),
            (Dir::C2S, Chan::Acks) => Some(Chans::ACKS),
            (Dir::C2S, Chan::ProtoHash) => self.chans.proto_hash(),
            (Dir::C2S, Chan::CEv(k)) => Some(self.chans.cev(k)),
            _ => None,
        }
    }

    /// Delivers (or drops) one queued message. Returns false if nothing was eligible.
    fn deliver(&mut self, dir: Dir, c: usize, chan: Chan, pick: Option<u8>, drop: bool) -> bool {
        if c >= self.clients.len() {
            return false;
        }
        let Some(ch) = self.chan_id(dir, chan) else { return false };
        let kind = match dir {
            Dir::S2C => self.chans.server_kind(ch),
            Dir::C2S => self.chans.client_kind(ch),
        };
        if drop && kind != 2 {
            return false;
        }
        let q = match dir {
            Dir::S2C => &mut self.clients[c].s2c[ch],
            Dir::C2S => &mut self.clients[c].c2s[ch],
        };
        if q.is_empty() {
            return false;
        }
        let idx = if kind == 0 { 0 } else { pick.unwrap_or(0) as usize % q.len() };
        let msg = q.remove(idx).unwrap();
        if idx > 0 {
            self.stats.fault("reorder");
            self.last_fault = 2;
            self.fault_fired = true;
        }
        if msg.held_frames > 0 {
            self.stats.fault("hold");
            self.fault_fired = true;
        }
        match dir {
            Dir::S2C => self.deliver_s2c(c, ch, msg, drop),
            Dir::C2S if drop => {
                // Unreliable client channel: the message is lost.
                if let Some(k) = self.chans.cev_of(ch) {
                    if let Ok(m) = wire::decode_cev(&msg.bytes, k) {
                        if let Some(e) = self.cev.iter_mut().find(|e| e.seq == m.seq) {
                            e.lost_in_flight = true;
                        }
                    }
                }
                self.stats.fault("drop_client_event");
                self.fault_fired = true;
            }
            Dir::C2S => self.deliver_c2s(c, ch, msg),
        }
        true
    }

    fn deliver_s2c(&mut self, c: usize, ch: usize, msg: Msg, drop: bool) {
        let up = self.clients[c].sess.as_ref().map(|s| s.client_up).unwrap_or(false);
        if !up {
            return;
        }
        if drop {
            if ch == Chans::MUTATIONS {
                self.stats.fault("drop_mutate");
                if let Some(m) = self.clients[c].sess.as_mut().unwrap().muts.get_mut(&msg.id) {
                    m.dropped = true;
                }
            } else {
                self.stats.fault("drop_event");
                for v in self.clients[c].sess.as_mut().unwrap().sev_sent.values_mut() {
                    for e in v.iter_mut().filter(|e| e.msg_id == msg.id) {
                        e.dropped = true;
                    }
                }
            }
            self.last_fault = 3;
            self.fault_fired = true;
            return;
        }
        // Fault bookkeeping: an update message is held while other traffic of the link flows.
        if ch != Chans::UPDATES && !self.clients[c].s2c[Chans::UPDATES].is_empty() {
            self.stats.fault("hold_update_channel");
            self.fault_fired = true;
        }
        let sess = self.clients[c].sess.as_mut().unwrap();
        if ch == Chans::UPDATES {
            sess.upd_delivered += 1;
            if let Some((t, _)) = sess.upd_sent.iter().find(|(_, id)| *id == msg.id) {
                sess.delivered_ticks.insert(*t);
            }
        } else if ch == Chans::MUTATIONS {
            if let Some(m) = sess.muts.get_mut(&msg.id) {
                m.delivered = true;
                sess.delivered_ticks.insert(m.tick);
                if sess.tick0 && sess.upd_delivered == 0 && m.update_tick == 0 {
                    for (e, comps) in &m.ents {
                        sess.f20_ents.insert(*e);
                        for r in comps {
                            let ver = match r.val {
                                Val::Ver(v) | Val::Big(v, _) => v,
                                Val::Ent(_) => u32::MAX,
                            };
                            let cur = sess.f20_cells.entry((*e, r.kind)).or_insert(0);
                            *cur = (*cur).max(ver);
                        }
                    }
                }
            }
        } else {
            for v in sess.sev_sent.values_mut() {
                for e in v.iter_mut().filter(|e| e.msg_id == msg.id) {
                    e.delivered = true;
                }
            }
            let pending = sess.upd_sent.len() - sess.upd_delivered.min(sess.upd_sent.len());
            if pending >= 1 {
                Stats::bump(&mut self.stats.probes, "event_overtook_update");
            }
            if pending >= 2 {
                Stats::bump(&mut self.stats.probes, "event_overtook_2_updates");
            }
        }
        self.clients[c]
            .app
            .world_mut()
            .resource_mut::<RepliconClient>()
            .insert_received(ch, msg.bytes);
    }

    fn deliver_c2s(&mut self, c: usize, ch: usize, msg: Msg) {
        let Some(ce) = self.clients[c].sess.as_ref().and_then(|s| s.ce) else { return };
        if !self.running {
            return;
        }
        if ch == Chans::ACKS {
            if let Ok(ids) = wire::decode_acks(&msg.bytes) {
                let now = self.now_ms;
                let timeout = self.prof.app.timeout_ms;
                let sess = self.clients[c].sess.as_mut().unwrap();
                for i in ids {
                    if let Some(id) = sess.mut_by_index.get(&i).copied() {
                        if let Some(m) = sess.muts.get_mut(&id) {
                            if m.ack_delivered_ms.is_none() {
                                m.ack_delivered_ms = Some(now);
                                if now.saturating_sub(m.sent_ms) > timeout {
                                    self.stats.faults.entry("ack_after_timeout".into()).and_modify(|v| *v += 1).or_insert(1);
                                }
                            }
                        }
                    }
                }
            }
        } else if Some(ch) == self.chans.proto_hash() {
            let f = self.server_frames;
            if self.prof.wrong_proto & (1 << c) != 0 {
                self.stats.fault("wrong_protocol");
            }
            let s = self.clients[c].sess.as_mut().unwrap();
            s.hash_delivered = true;
            s.hash_delivered_frame.get_or_insert(f);
        } else if let Some(k) = self.chans.cev_of(ch) {
            if let Ok(m) = wire::decode_cev(&msg.bytes, k) {
                if let Some(e) = self.cev.iter_mut().find(|e| e.seq == m.seq) {
                    e.delivered = true;
                }
            }
        }
        self.server.world_mut().resource_mut::<RepliconServer>().insert_received(ce, ch, msg.bytes);
    }

    // -------------------------------------------------------------------------------------
    // Frames

    pub fn server_frame(&mut self, tick: bool, dt_ms: u32) {
        if self.server_panicked {
            return;
        }
        for (ev, mode, target) in std::mem::take(&mut self.pending_emits) {
            self.op_emit(ev, mode, target);
        }
        if self.running && self.prof.app.tick_policy == 0 && tick {
            self.server.world_mut().resource_mut::<ServerTick>().increment();
        }
        set_dt(&mut self.server, dt_ms);
        if dt_ms == 0 {
            self.stats.fault("zero_dt");
        } else if dt_ms >= 1000 {
            self.stats.fault("clock_jump");
        }
        self.server.world_mut().resource_mut::<Probe>().ticked = false;
        let injected = std::mem::take(&mut self.inject_pending);
        crate::alloc::reset_max();
        let res = guarded_update(&mut self.server);
        let max_alloc = crate::alloc::take_max();
        if injected {
            self.max_alloc_inject = self.max_alloc_inject.max(max_alloc);
        } else {
            self.max_alloc_clean = self.max_alloc_clean.max(max_alloc);
        }
        self.server_frames += 1;
        self.stats.server_frames += 1;
        // Bevy's virtual clock (what `Res<Time>` is in the library's systems) advances by at most 250 ms per frame.
        self.now_ms += (dt_ms as u64).min(250);
        self.stats.sim_ms += (dt_ms as u64).min(250);
        if let Err(p) = res {
            self.server_panicked = true;
            // A panic belongs to convergence (C01) in any case, to the session life-cycle (C09) if a session
            // ended before, and to C06 if any client bytes were injected earlier in the run (the server
            // must keep serving correctly after malformed input).
            // A panic ends the run, so whichever check is running has to report it (C01 and C09 name it
            // explicitly; for the others it means the behaviour they judge can no longer be observed).
            for prop in ["C01", "C02", "C03", "C04", "C05", "C07", "C08", "C10", "C11", "C12", "C16"] {
                self.violate(prop, "server_panic", format!("server frame panicked: {p}"));
            }
            if self.any_session_restarted() {
                self.violate("C09", "server_panic", format!("server frame panicked: {p}"));
            }
            if injected || self.stats.faults.contains_key("byzantine_bytes") {
                self.violate("C06", "server_panic", format!("server frame panicked: {p}"));
            }
            return;
        }
        // Acks handed over before this frame have now been processed.
        for c in &mut self.clients {
            if let Some(s) = c.sess.as_mut() {
                for m in s.muts.values_mut() {
                    if m.ack_delivered_ms.is_some() {
                        m.ack_processed = true;
                    }
                }
            }
        }
        // The library despawns client entities itself after a stop.
        let stop_frame = std::mem::take(&mut self.stop_pending);
        for c in 0..self.clients.len() {
            if let Some(ce) = self.clients[c].sess.as_ref().and_then(|s| s.ce) {
                if self.server.world().get_entity(ce).is_err() {
                    self.close_server_end_opt(c, false);
                } else if stop_frame {
                    self.violate("C09", "client_entity_survived_stop", format!("client entity {ce} of client {c} still exists after the frame that followed the server stop"));
                    self.close_server_end_opt(c, true);
                }
            }
        }
        // The server keeps nothing of closed sessions: every client entity belongs to an open session.
        {
            let known: Vec<Entity> = self.clients.iter().filter_map(|c| c.sess.as_ref().and_then(|s| s.ce)).collect();
            let w = self.server.world();
            let stray: Vec<Entity> = w.iter_entities().filter(|r| r.contains::<ConnectedClient>() && !known.contains(&r.id())).map(|r| r.id()).collect();
            for e in stray {
                self.violate("C09", "stray_client_entity", format!("server world holds client entity {e} that belongs to no open session"));
            }
        }
        for c in 0..self.clients.len() {
            let a = self.is_authorized(c);
            if let Some(s) = self.clients[c].sess.as_mut() {
                s.authorized = a;
            }
        }
        let ticked = self.server.world().resource::<Probe>().ticked;
        let t = self.server_tick();
        // Event emission bookkeeping: events written before this frame were read by it.
        self.note_emission_frame(ticked, t);
        if ticked {
            self.struct_since_tick.clear();
            self.stats.ticks += 1;
            if self.last_tick == Some(t) {
                // The same tick replicated twice (first frame after a start): keep the newest view.
            }
            self.take_snapshot(t);
            self.last_tick = Some(t);
        }
        self.collect_server_probe();
        self.relay_server(ticked, t, injected);
        crate::oracles::after_server_frame(self, ticked, t, injected);
        // A backend reacts to disconnect requests after flushing pending messages.
        let reqs: Vec<Entity> = std::mem::take(&mut self.server.world_mut().resource_mut::<Probe>().disconnect_requests);
        for r in reqs {
            for c in 0..self.clients.len() {
                if self.clients[c].sess.as_ref().and_then(|s| s.ce) == Some(r) {
                    self.clients[c].sess.as_mut().unwrap().disconnect_requested = true;
                    self.close_server_end(c);
                }
            }
        }
        self.signature(0);
    }

    fn any_session_restarted(&self) -> bool {
        self.session_ctr as usize > self.clients.len() || self.stats.faults.contains_key("server_restart")
            || self.stats.faults.contains_key("disconnect")
    }

    fn note_emission_frame(&mut self, ticked: bool, t: u32) {
        let frame = self.server_frames;
        let running = self.running;
        let connected: Vec<(usize, u32)> = self
            .clients
            .iter()
            .enumerate()
            .filter_map(|(i, c)| c.sess.as_ref().filter(|s| s.ce.is_some()).map(|s| (i, s.id)))
            .collect();
        let authorized: Vec<(usize, u32)> = connected
            .iter()
            .copied()
            .filter(|(i, _)| self.clients[*i].sess.as_ref().map(|s| s.authorized).unwrap_or(false))
            .collect();
        let nclients = self.clients.len();
        for e in self.sev.iter_mut() {
            if e.frame.is_none() {
                e.frame = Some(frame);
                if !running {
                    e.dropped_not_running = true;
                    e.recipients = Some(vec![]);
                    continue;
                }
                e.connected_at_emit = connected.clone();
                if e.kind == SEv::Ind {
                    e.recipients = Some(filter_mode(&connected, e.mode, nclients));
                    e.flush_tick = Some(t);
                }
            }
            if e.recipients.is_none() && ticked && running {
                // Dependent events are flushed on a tick to clients that were connected when the
                // event was buffered, are still connected and are authorised now.
                let r: Vec<(usize, u32)> = authorized
                    .iter()
                    .copied()
                    .filter(|x| e.connected_at_emit.contains(x))
                    .collect();
                e.recipients = Some(filter_mode(&r, e.mode, nclients));
                e.flush_tick = Some(t);
            }
        }
        if !running {
            // A stop clears buffered events: nothing pending will ever be flushed.
            for e in self.sev.iter_mut().filter(|e| e.recipients.is_none()) {
                e.recipients = Some(vec![]);
            }
        }
    }

    fn take_snapshot(&mut self, t: u32) {
        let mut ents = BTreeMap::new();
        for s in self.slots.iter().flatten() {
            if self.replicated(*s) {
                ents.insert(s.to_bits(), read_comps(self.server.world(), *s));
            }
        }
        let mut vis = Vec::new();
        for c in 0..self.clients.len() {
            let auth = self.clients[c].sess.as_ref().map(|s| s.ce.is_some() && s.authorized).unwrap_or(false);
            if auth {
                vis.push(Some(ents.keys().copied().filter(|e| self.visible(c, *e)).collect()));
            } else {
                vis.push(None);
            }
        }
        // Link groups: union-find over the LinkTo edges of replicated sources. The target only has to be
        // alive (an unreplicated hub still connects the entities that point at it).
        let keys: Vec<u64> = ents.keys().copied().collect();
        let mut parent: BTreeMap<u64, u64> = self.slots.iter().flatten().map(|e| (e.to_bits(), e.to_bits())).collect();
        fn find(p: &mut BTreeMap<u64, u64>, x: u64) -> u64 {
            let mut r = x;
            while p[&r] != r {
                r = p[&r];
            }
            let mut y = x;
            while p[&y] != r {
                let n = p[&y];
                p.insert(y, r);
                y = n;
            }
            r
        }
        for (e, comps) in &ents {
            if let Some(Val::Ent(t)) = comps.get(&Kind::Link) {
                if parent.contains_key(t) {
                    let (a, b) = (find(&mut parent, *e), find(&mut parent, *t));
                    if a != b {
                        parent.insert(a, b);
                    }
                }
            }
        }
        let mut groups: BTreeMap<u64, Vec<u64>> = BTreeMap::new();
        for k in &keys {
            let r = find(&mut parent, *k);
            groups.entry(r).or_default().push(*k);
        }
        let groups = groups.into_values().filter(|g| g.len() > 1).collect();
        self.snaps.insert(t, Snap { ents, vis, frame: self.server_frames, groups });
    }

    fn collect_server_probe(&mut self) {
        let (sev, cev) = {
            let mut p = self.server.world_mut().resource_mut::<Probe>();
            (std::mem::take(&mut p.sev), std::mem::take(&mut p.cev))
        };
        for o in sev {
            if let Some(e) = self.sev.iter_mut().find(|e| e.seq == o.seq) {
                e.local_seen += 1;
            }
        }
        for o in cev {
            let ent = match o.kind {
                CEv::Map => o.ent.map(|e| e.to_bits()),
                CEv::Trig => o.ent.map(|e| e.to_bits()),
                CEv::Ord | CEv::Unord | CEv::Unrel => None,
            };
            // Server-side logic must never see an event attributed to a client that is not connected.
            let known = o.client == SERVER || self.clients.iter().any(|c| c.sess.as_ref().and_then(|s| s.ce) == Some(o.client));
            if !known {
                self.violate("C09", "event_from_dead_client", format!("server observed client event seq {} from client entity {} which is not connected", o.seq, o.client));
            }
            if matches!(o.kind, CEv::Ord | CEv::Map | CEv::Trig) {
                let key = (o.client.to_bits(), o.kind);
                let last = self.cev_last_seen.get(&key).copied().unwrap_or(0);
                if o.seq < last {
                    self.violate("C05", "client_event_out_of_order", format!("server observed client event {:?} seq {} from {} after seq {last} of the same ordered channel", o.kind, o.seq, o.client));
                }
                self.cev_last_seen.insert(key, last.max(o.seq));
            }
            if let Some(e) = self.cev.iter_mut().find(|e| e.seq == o.seq) {
                e.seen.push((o.client.to_bits(), ent));
            } else {
                self.violate("C05", "unknown_client_event", format!("server saw client event seq {} never emitted", o.seq));
            }
        }
    }

    fn relay_server(&mut self, ticked: bool, t: u32, injected: bool) {
        let sent: Vec<(Entity, usize, Bytes)> =
            self.server.world_mut().resource_mut::<RepliconServer>().drain_sent().collect();
        let mut per_client_repl = vec![0u32; self.clients.len()];
        for (ce, ch, bytes) in sent {
            self.stats.messages += 1;
            self.stats.bytes += bytes.len() as u64;
            self.stats.digest = fnv(fnv(self.stats.digest, &[ch as u8, 0xA5]), &bytes);
            let Some(c) = self.clients.iter().position(|c| c.sess.as_ref().and_then(|s| s.ce) == Some(ce)) else {
                self.violate(
                    "C09",
                    "message_for_dead_client",
                    format!("server drained a message on channel {ch} for client entity {ce} that is not connected"),
                );
                continue;
            };
            self.msg_id += 1;
            let id = self.msg_id;
            if ch == Chans::UPDATES || ch == Chans::MUTATIONS {
                per_client_repl[c] += 1;
            }
            crate::oracles::on_server_message(self, c, ch, &bytes, id, ticked, t, injected);
            let up = self.clients[c].sess.as_ref().map(|s| s.client_up).unwrap_or(false);
            if up {
                self.clients[c].s2c[ch].push_back(Msg { bytes, id, sent_ms: self.now_ms, held_frames: 0 });
            }
        }
        for (c, n) in per_client_repl.iter().enumerate() {
            if let Some(s) = self.clients[c].sess.as_mut() {
                s.idle_replication_msgs = *n;
            }
        }
    }

    pub fn client_frame(&mut self, c: usize, dt_ms: u32) {
        if c >= self.clients.len() || self.clients[c].panicked {
            return;
        }
        set_dt(&mut self.clients[c].app, dt_ms);
        let res = guarded_update(&mut self.clients[c].app);
        self.clients[c].frames += 1;
        self.stats.client_frames += 1;
        if let Err(p) = res {
            self.clients[c].panicked = true;
            for prop in ["C01", "C02", "C03", "C04", "C05", "C07", "C08", "C10", "C11", "C12", "C16"] {
                self.violate(prop, "client_panic", format!("client {c} frame panicked: {p}"));
            }
            if self.any_session_restarted() {
                self.violate("C09", "client_panic", format!("client {c} frame panicked: {p}"));
            }
            return;
        }
        for q in self.clients[c].s2c.iter_mut() {
            for m in q.iter_mut() {
                m.held_frames += 1;
            }
        }
        let connected = self.clients[c].sess.as_ref().map(|s| s.client_up).unwrap_or(false);
        if connected {
            let s = self.clients[c].sess.as_mut().unwrap();
            s.client_frames += 1;
            if s.upd_delivered - s.upd_applied >= 2 {
                self.stats.probe("two_updates_one_frame");
            }
        }
        for e in self.cev.iter_mut().filter(|e| e.client == c) {
            e.client_frame_after = true;
        }
        crate::oracles::after_client_frame(self, c);
        if connected {
            let s = self.clients[c].sess.as_mut().unwrap();
            s.upd_applied = s.upd_delivered;
        }
        // Relay what the client sent.
        let sent: Vec<(usize, Bytes)> =
            self.clients[c].app.world_mut().resource_mut::<RepliconClient>().drain_sent().collect();
        for (ch, bytes) in sent {
            self.msg_id += 1;
            let id = self.msg_id;
            self.stats.messages += 1;
            self.stats.bytes += bytes.len() as u64;
            self.stats.digest = fnv(fnv(self.stats.digest, &[ch as u8, c as u8, 0x5A]), &bytes);
            if ch < self.clients[c].last_c2s.len() {
                self.clients[c].last_c2s[ch] = Some(bytes.clone());
            }
            crate::oracles::on_client_message(self, c, ch, &bytes);
            let server_open = self.clients[c].sess.as_ref().map(|s| s.ce.is_some()).unwrap_or(false);
            if server_open && ch < self.clients[c].c2s.len() {
                self.clients[c].c2s[ch].push_back(Msg { bytes, id, sent_ms: self.now_ms, held_frames: 0 });
            }
        }
        self.signature(1 + c as u64);
    }

    // -------------------------------------------------------------------------------------
    // Quiescence

    fn heal(&mut self) {
        if self.healed {
            return;
        }
        self.healed = true;
        let rounds = self.prof.heal_rounds;
        let dt = match self.prof.app.tick_policy {
            2 => (1000 / self.prof.app.rate.max(1) as u32) + 1,
            _ => 16,
        };
        for round in 0..rounds {
            if self.dead() {
                return;
            }
            self.server_frame(true, dt);
            for c in 0..self.clients.len() {
                for ch in 0..self.chans.n_server() {
                    while let Some(msg) = self.clients[c].s2c[ch].pop_front() {
                        self.deliver_s2c(c, ch, msg, false);
                    }
                }
            }
            for c in 0..self.clients.len() {
                self.client_frame(c, dt);
            }
            for c in 0..self.clients.len() {
                for ch in 0..self.chans.n_client() {
                    while let Some(msg) = self.clients[c].c2s[ch].pop_front() {
                        self.deliver_c2s(c, ch, msg);
                    }
                }
            }
            crate::oracles::after_heal_round(self, round, rounds);
        }
        if !self.dead() {
            crate::oracles::end_of_run(self);
        }
        // Resume phase: after silence the next change is replicated again (C11) and converges (C01).
        if !self.dead() && self.running && rounds >= 6 {
            let target = (0..self.slots.len() as u8).find(|s| {
                self.slot_ent(*s).map(|e| self.replicated(e) && has_kind(self.server.world(), e, Kind::A)).unwrap_or(false)
            });
            if let Some(slot) = target {
                self.resume_phase = true;
                self.apply(&Step::Mutate { slot, kind: Kind::A, extra: 0 });
                for _ in 0..3 {
                    if self.dead() {
                        return;
                    }
                    self.quiescence_round(dt);
                }
                if !self.dead() {
                    crate::oracles::end_of_run(self);
                }
            }
        }
    }

    fn quiescence_round(&mut self, dt: u32) {
        self.server_frame(true, dt);
        for c in 0..self.clients.len() {
            for ch in 0..self.chans.n_server() {
                while let Some(msg) = self.clients[c].s2c[ch].pop_front() {
                    self.deliver_s2c(c, ch, msg, false);
                }
            }
        }
        for c in 0..self.clients.len() {
            self.client_frame(c, dt);
        }
        for c in 0..self.clients.len() {
            for ch in 0..self.chans.n_client() {
                while let Some(msg) = self.clients[c].c2s[ch].pop_front() {
                    self.deliver_c2s(c, ch, msg);
                }
            }
        }
    }

    fn signature(&mut self, node: u64) {
        let mut sig: u64 = node & 3;
        let mut shift = 2;
        let mut push = |v: u64, bits: u32| {
            sig |= (v & ((1 << bits) - 1)) << shift;
            shift += bits;
        };
        push(self.last_op as u64, 4);
        push(self.last_fault as u64, 3);
        push(self.running as u64, 1);
        let mut any_replicated = false;
        for c in self.clients.iter().take(2) {
            let (st, lag, buffered) = match c.sess.as_ref() {
                None => (0u64, 0u64, 0u64),
                Some(s) => {
                    let st = if !s.up() { 1 } else if !s.authorized { 2 } else { 3 };
                    let lag = (s.upd_sent.len() - s.upd_applied.min(s.upd_sent.len())).min(3) as u64;
                    let buffered = s.muts.values().filter(|m| m.delivered && !m.applied).count().min(2) as u64;
                    if s.upd_applied > 0 {
                        any_replicated = true;
                    }
                    (st, lag, buffered)
                }
            };
            push(st, 2);
            push(lag, 2);
            push(buffered, 2);
            push(c.s2c[Chans::UPDATES].len().min(2) as u64, 2);
            push(c.s2c[Chans::MUTATIONS].len().min(2) as u64, 2);
            push(c.c2s[Chans::ACKS].len().min(2) as u64, 2);
            let ev: usize = c.s2c.iter().skip(2).map(|q| q.len()).sum();
            push(ev.min(2) as u64, 2);
        }
        push(self.prof.app.vis as u64, 2);
        self.stats.sigs.insert(sig);
        if any_replicated {
            self.progressed = true;
        }
        if self.fault_fired && any_replicated {
            self.stats.nontrivial_sigs.insert(sig);
        }
    }

    /// Runs a whole trace; returns the violations.
    pub fn run(trace: &Trace, verbose: bool) -> Sim {
        Self::run_opts(trace, verbose, false)
    }

    pub fn run_opts(trace: &Trace, verbose: bool, no_taint: bool) -> Sim {
        let mut sim = Sim::new(&trace.profile);
        sim.verbose = verbose;
        sim.no_taint = no_taint;
        for (i, step) in trace.steps.iter().enumerate() {
            if sim.dead() {
                break;
            }
            sim.step_no = i;
            if verbose {
                sim.log(format!("{i}: {step:?}"));
            }
            sim.apply(step);
        }
        if sim.progressed {
            sim.stats.progress_runs = 1;
        }
        if sim.max_alloc_inject > 0 {
            let b = usize::BITS - sim.max_alloc_inject.leading_zeros();
            sim.stats.probe(&format!("largest_allocation_in_injected_frame_below_2^{b:02}"));
        }
        if sim.max_alloc_clean > 0 {
            let b = usize::BITS - sim.max_alloc_clean.leading_zeros();
            sim.stats.probe(&format!("largest_allocation_in_clean_frame_below_2^{b:02}"));
        }
        sim
    }
}

fn filter_mode(set: &[(usize, u32)], mode: Mode, nclients: usize) -> Vec<(usize, u32)> {
    match mode {
        Mode::Broadcast => set.to_vec(),
        Mode::Except(i) => set.iter().copied().filter(|(c, _)| *c != i as usize || i as usize >= nclients).collect(),
        Mode::Direct(i) => set.iter().copied().filter(|(c, _)| *c == i as usize && (i as usize) < nclients).collect(),
    }
}

pub fn client_view(
    app: &App,
) -> (u32, BTreeMap<u64, (u64, bool, Comps, u32)>, Vec<(u64, u64)>, Vec<(u64, u64)>) {
    // (update tick, server bits -> (client bits, marker, comps, last_tick), to_client pairs, to_server pairs)
    let w = app.world();
    let u = w.get_resource::<ServerUpdateTick>().map(|t| t.get()).unwrap_or(0);
    let mut held = BTreeMap::new();
    let mut tc = vec![];
    let mut ts = vec![];
    if let Some(map) = w.get_resource::<ServerEntityMap>() {
        for (s, c) in map.to_client().iter() {
            tc.push((s.to_bits(), c.to_bits()));
            if let Ok(r) = w.get_entity(*c) {
                if let Some(h) = r.get::<ConfirmHistory>() {
                    held.insert(
                        s.to_bits(),
                        (c.to_bits(), r.contains::<Replicated>(), pool::read_comps(w, *c), h.last_tick().get()),
                    );
                }
            }
        }
        for (c, s) in map.to_server().iter() {
            ts.push((c.to_bits(), s.to_bits()));
        }
    }
    tc.sort();
    ts.sort();
    (u, held, tc, ts)
}
