//! Directed histories: the minimal schedule of every finding (DESIGN.md section 6). For repaired findings
//! they are regression runs that must pass; for known findings they must still show the symptom.

use crate::pool::*;
use crate::steps::*;

pub struct Scenario {
    pub id: &'static str,
    /// Properties whose check runs this scenario.
    pub props: Vec<&'static str>,
    pub trace: Trace,
    /// For known findings: the oracles that show the recorded symptom when taints are off.
    pub symptom_oracles: Vec<&'static str>,
}

fn prof() -> Profile {
    Profile { slots: 3, heal_rounds: 12, ..Default::default() }
}

fn sf(tick: bool) -> Step {
    Step::ServerFrame { tick, dt_ms: 16 }
}
fn cf(c: u8) -> Step {
    Step::ClientFrame { client: c, dt_ms: 16 }
}
fn del(c: u8, chan: Chan) -> Step {
    Step::DeliverAll { dir: Dir::S2C, client: c, chan }
}
fn up(c: u8, chan: Chan) -> Step {
    Step::DeliverAll { dir: Dir::C2S, client: c, chan }
}
fn spawn(slot: u8, kinds: &[Kind]) -> Step {
    Step::Spawn { slot, kinds: kinds.to_vec(), marker: true }
}
fn mutate(slot: u8, kind: Kind) -> Step {
    Step::Mutate { slot, kind, extra: 8 }
}
/// One lock-step round for client 0.
fn round() -> Vec<Step> {
    vec![sf(true), del(0, Chan::Updates), del(0, Chan::Mutations), cf(0), up(0, Chan::Acks)]
}
fn start() -> Vec<Step> {
    vec![Step::ServerStart, Step::Connect { client: 0 }]
}
fn cat(parts: Vec<Vec<Step>>) -> Vec<Step> {
    parts.into_iter().flatten().collect()
}

pub fn all() -> Vec<Scenario> {
    let mut v = vec![];

    // F1: a buffered mutate message must not be acknowledged before it is applied.
    v.push(Scenario {
        id: "F1",
        props: vec!["C01", "C02", "C11"],
        trace: Trace {
            profile: prof(),
            steps: cat(vec![
                start(),
                vec![spawn(0, &[Kind::A, Kind::B])],
                round(),
                vec![spawn(1, &[Kind::A]), sf(true)], // update message held
                vec![mutate(0, Kind::A), sf(true), del(0, Chan::Mutations), cf(0), up(0, Chan::Acks), sf(false)],
                vec![mutate(0, Kind::B), sf(true), del(0, Chan::Mutations), del(0, Chan::Updates), cf(0), up(0, Chan::Acks)],
                vec![Step::Heal],
            ]),
        },
        symptom_oracles: vec![],
    });

    // F2: blacklist, hide then despawn within one tick window.
    let mut p = prof();
    p.app.vis = 1;
    v.push(Scenario {
        id: "F2",
        props: vec!["C01", "C03", "C08"],
        trace: Trace {
            profile: p.clone(),
            steps: cat(vec![
                start(),
                vec![spawn(0, &[Kind::A])],
                round(),
                vec![Step::SetVis { client: 0, slot: 0, visible: false }, Step::Despawn { slot: 0 }],
                round(),
                vec![Step::Heal],
            ]),
        },
        symptom_oracles: vec![],
    });

    // F3: removal in one frame, despawn in a later frame of the same tick window.
    v.push(Scenario {
        id: "F3",
        props: vec!["C01", "C03"],
        trace: Trace {
            profile: prof(),
            steps: cat(vec![
                start(),
                vec![spawn(0, &[Kind::A, Kind::B])],
                round(),
                vec![Step::Remove { slot: 0, kind: Kind::A }, sf(false), Step::Despawn { slot: 0 }, sf(false)],
                round(),
                vec![Step::Heal],
            ]),
        },
        symptom_oracles: vec![],
    });
    v.push(Scenario {
        id: "F3b",
        props: vec!["C01", "C03"],
        trace: Trace {
            profile: prof(),
            steps: cat(vec![
                start(),
                vec![spawn(0, &[Kind::A, Kind::B])],
                round(),
                vec![Step::Remove { slot: 0, kind: Kind::A }, sf(false), Step::MarkerOff { slot: 0 }, sf(false)],
                round(),
                vec![Step::Heal],
            ]),
        },
        symptom_oracles: vec![],
    });

    // F5: acknowledgement bytes from a connected, unauthorised client.
    let mut p5 = prof();
    p5.app.auth = 2;
    v.push(Scenario {
        id: "F5",
        props: vec!["C06"],
        trace: Trace {
            profile: p5,
            steps: cat(vec![start(), vec![Step::Inject { client: 0, channel: 0, bytes: vec![0, 0] }, sf(true), sf(true), Step::Heal]]),
        },
        symptom_oracles: vec![],
    });

    // F8: entity referenced by a component before its own record arrives.
    v.push(Scenario {
        id: "F8",
        props: vec!["C01", "C03"],
        trace: Trace {
            profile: prof(),
            steps: cat(vec![
                start(),
                vec![
                    spawn(0, &[Kind::A]),
                    spawn(1, &[Kind::A]),
                    Step::Point { slot: 0, kind: Kind::Ref, target: 1 },
                    Step::Point { slot: 1, kind: Kind::Ref, target: 0 },
                ],
                round(),
                vec![Step::Heal],
            ]),
        },
        symptom_oracles: vec![],
    });

    // F9: two removals on one entity in different frames of one tick window.
    v.push(Scenario {
        id: "F9",
        props: vec!["C01", "C03"],
        trace: Trace {
            profile: prof(),
            steps: cat(vec![
                start(),
                vec![spawn(0, &[Kind::A, Kind::B, Kind::S])],
                round(),
                vec![Step::Remove { slot: 0, kind: Kind::A }, sf(false), Step::Remove { slot: 0, kind: Kind::B }, sf(false)],
                round(),
                vec![Step::Heal],
            ]),
        },
        symptom_oracles: vec![],
    });

    // F10: target count / entity bits from a remote client (default protocol-hash trigger channel).
    let mut p10 = prof();
    p10.app.auth = 0;
    // A large but representable target count: no panic, but an allocation out of proportion.
    v.push(Scenario {
        id: "F10e",
        props: vec!["C06"],
        trace: Trace {
            profile: p10.clone(),
            steps: cat(vec![
                start(),
                vec![cf(0), up(0, Chan::ProtoHash), sf(true), Step::Inject { client: 0, channel: 1, bytes: vec![0xff, 0xff, 0xff, 0x7f, 0x00] }, sf(true), sf(true), Step::Heal],
            ]),
        },
        symptom_oracles: vec![],
    });
    for (i, bytes) in [
        vec![0xff, 0xff, 0xff, 0xff, 0xff, 0xff, 0xff, 0xff, 0xff, 0x01],
        vec![0x01, 0x03, 0xff, 0xff, 0xff, 0xff, 0x0f, 0x00],
        vec![0x01, 0x03, 0xfe, 0xff, 0xff, 0xff, 0x07, 0x00],
        vec![0x01, 0xff, 0xff, 0xff, 0xff, 0xff, 0x7f, 0x00],
        // wire generation 0x7fff_ffff decodes to generation 0x8000_0000: the first value whose bits are not
        // an entity (seeded C06-e); and one from the middle of the invalid range
        vec![0x01, 0x03, 0xff, 0xff, 0xff, 0xff, 0x07, 0x00],
        vec![0x01, 0x03, 0xff, 0xff, 0xff, 0xff, 0x0e, 0x00],
    ]
    .into_iter()
    .enumerate()
    {
        v.push(Scenario {
            id: ["F10a", "F10b", "F10c", "F10d", "F10f", "F10g"][i],
            props: vec!["C06"],
            trace: Trace {
                profile: p10.clone(),
                steps: cat(vec![
                    start(),
                    vec![cf(0), up(0, Chan::ProtoHash), sf(true), Step::Inject { client: 0, channel: 1, bytes }, sf(true), sf(true), Step::Heal],
                ]),
            },
            symptom_oracles: vec![],
        });
    }

    // F11: registered relationship graph, world at rest.
    let mut p11 = prof();
    p11.app.sync_related = true;
    v.push(Scenario {
        id: "F11",
        props: vec!["C11"],
        trace: Trace {
            profile: p11,
            steps: cat(vec![
                start(),
                vec![spawn(0, &[Kind::A]), spawn(1, &[Kind::A]), Step::Point { slot: 0, kind: Kind::Link, target: 1 }],
                round(),
                vec![mutate(0, Kind::A)],
                round(),
                vec![Step::Heal],
            ]),
        },
        symptom_oracles: vec![],
    });

    // F14: removal buffered, server stops before the tick, entity despawned while stopped.
    v.push(Scenario {
        id: "F14",
        props: vec!["C09", "C03"],
        trace: Trace {
            profile: prof(),
            steps: cat(vec![
                start(),
                vec![spawn(0, &[Kind::A, Kind::B])],
                round(),
                vec![Step::Remove { slot: 0, kind: Kind::A }, sf(false), Step::ServerStop, sf(false)],
                vec![Step::Disconnect { client: 0, side: 0 }, cf(0), Step::Despawn { slot: 0 }, sf(false)],
                vec![Step::ServerStart, Step::Connect { client: 0 }],
                round(),
                vec![Step::Heal],
            ]),
        },
        symptom_oracles: vec![],
    });

    // F15: visibility setting survives a marker toggle.
    v.push(Scenario {
        id: "F15",
        props: vec!["C08", "C01", "C03"],
        trace: Trace {
            profile: p.clone(),
            steps: cat(vec![
                start(),
                vec![spawn(0, &[Kind::A])],
                round(),
                vec![Step::SetVis { client: 0, slot: 0, visible: false }],
                round(),
                vec![Step::MarkerOff { slot: 0 }],
                round(),
                vec![Step::MarkerOn { slot: 0 }],
                round(),
                vec![Step::Heal],
            ]),
        },
        symptom_oracles: vec![],
    });
    let mut pw = prof();
    pw.app.vis = 2;
    v.push(Scenario {
        id: "F15w",
        props: vec!["C08", "C01", "C03"],
        trace: Trace {
            profile: pw,
            steps: cat(vec![
                start(),
                vec![spawn(0, &[Kind::A]), Step::ServerFrame { tick: true, dt_ms: 16 }, Step::SetVis { client: 0, slot: 0, visible: true }],
                round(),
                vec![Step::MarkerOff { slot: 0 }],
                round(),
                vec![Step::MarkerOn { slot: 0 }],
                round(),
                vec![Step::Heal],
            ]),
        },
        symptom_oracles: vec![],
    });

    // F18: entity without replicated components, client joins later.
    v.push(Scenario {
        id: "F18",
        props: vec!["C01", "C07", "C09", "C03"],
        trace: Trace {
            profile: prof(),
            steps: cat(vec![vec![Step::ServerStart, spawn(0, &[]), sf(true), sf(true), Step::Connect { client: 0 }], round(), vec![Step::Heal]]),
        },
        symptom_oracles: vec![],
    });

    // F21: whitelist, hide / show / hide within one tick window.
    let mut p21 = prof();
    p21.app.vis = 2;
    v.push(Scenario {
        id: "F21",
        props: vec!["C08", "C01", "C03"],
        trace: Trace {
            profile: p21,
            steps: cat(vec![
                start(),
                vec![spawn(0, &[Kind::A]), Step::SetVis { client: 0, slot: 0, visible: true }],
                round(),
                vec![
                    Step::SetVis { client: 0, slot: 0, visible: false },
                    Step::SetVis { client: 0, slot: 0, visible: true },
                    Step::SetVis { client: 0, slot: 0, visible: false },
                ],
                round(),
                vec![Step::Heal],
            ]),
        },
        symptom_oracles: vec![],
    });

    // F22: event queued on the client when the session ends must not appear in the next session.
    v.push(Scenario {
        id: "F22",
        props: vec!["C04", "C05", "C09"],
        trace: Trace {
            profile: prof(),
            steps: cat(vec![
                start(),
                vec![sf(true), spawn(0, &[Kind::A]), Step::Emit { ev: SEv::Unord, mode: Mode::Broadcast, target: None }, sf(true)],
                vec![del(0, Chan::SEv(SEv::Unord)), cf(0)], // update message held: the event is queued
                vec![Step::Disconnect { client: 0, side: 0 }, cf(0), sf(false), Step::Connect { client: 0 }],
                vec![spawn(1, &[Kind::A]), Step::Emit { ev: SEv::Unord, mode: Mode::Broadcast, target: None }, sf(true)],
                vec![del(0, Chan::SEv(SEv::Unord)), cf(0)],
                vec![Step::Heal],
            ]),
        },
        symptom_oracles: vec![],
    });

    // F23 / F24: minimised histories found by the seeded search, kept verbatim.
    v.push(Scenario {
        id: "F23",
        props: vec!["C10"],
        trace: serde_json::from_str(include_str!("traces/F23.json")).expect("embedded trace"),
        symptom_oracles: vec![],
    });
    v.push(Scenario {
        id: "F24",
        props: vec!["C10", "C01", "C02"],
        trace: serde_json::from_str(include_str!("traces/F24.json")).expect("embedded trace"),
        symptom_oracles: vec![],
    });

    // F4 (known): periodic component written off-period, entity's mutation tick advances.
    let mut p4 = prof();
    p4.app.period = 2;
    v.push(Scenario {
        id: "F4",
        props: vec!["C01"],
        trace: Trace {
            profile: p4,
            steps: cat(vec![
                start(),
                vec![spawn(0, &[Kind::A, Kind::P])],
                round(), // tick 1
                round(), // tick 2
                vec![mutate(0, Kind::A), mutate(0, Kind::P)],
                round(), // tick 3: off-period, A travels alone and is acknowledged
                vec![sf(false), Step::Heal],
            ]),
        },
        symptom_oracles: vec!["periodic_value"],
    });

    // F17 (known): reference target leaves and re-enters the client's view.
    v.push(Scenario {
        id: "F17",
        props: vec!["C01", "C02"],
        trace: Trace {
            profile: p.clone(),
            steps: cat(vec![
                start(),
                vec![spawn(0, &[Kind::A]), spawn(1, &[Kind::A]), Step::Point { slot: 0, kind: Kind::Ref, target: 1 }],
                round(),
                vec![Step::SetVis { client: 0, slot: 1, visible: false }],
                round(),
                vec![Step::SetVis { client: 0, slot: 1, visible: true }],
                round(),
                vec![Step::Heal],
            ]),
        },
        symptom_oracles: vec!["reference_target"],
    });

    // F17 (known), mapping variant: a reference to the target travels before the target's pre-spawn mapping.
    let mut pw17 = prof();
    pw17.app.vis = 2;
    v.push(Scenario {
        id: "F17",
        props: vec!["C01", "C16"],
        trace: Trace {
            profile: pw17,
            steps: cat(vec![
                vec![Step::ServerStart, spawn(1, &[Kind::A]), spawn(0, &[Kind::A]), Step::Connect { client: 0 }],
                vec![Step::SetVis { client: 0, slot: 1, visible: true }, Step::Point { slot: 1, kind: Kind::Ref, target: 0 }],
                round(),
                vec![
                    Step::SetVis { client: 0, slot: 0, visible: true },
                    Step::PreSpawn { client: 0, cslot: 0 },
                    Step::MapPreSpawn { client: 0, slot: 0, cslot: 0 },
                ],
                round(),
                vec![Step::Heal],
            ]),
        },
        symptom_oracles: vec!["reference_target", "reference_to_duplicate"],
    });

    // F20 (known): replication at tick 0 cannot be told from "nothing received yet".
    v.push(Scenario {
        id: "F20",
        props: vec!["C04", "C05"],
        trace: Trace {
            profile: prof(),
            steps: cat(vec![
                start(),
                // one event with a reference to the new entity (dropped as unresolvable: C05), one without (handed
                // out before the spawn is applied: C04)
                vec![spawn(0, &[Kind::A]), Step::Emit { ev: SEv::Ord, mode: Mode::Broadcast, target: Some(0) }, Step::Emit { ev: SEv::Ord, mode: Mode::Broadcast, target: None }],
                vec![sf(false), del(0, Chan::SEv(SEv::Ord)), cf(0), del(0, Chan::Updates), cf(0)],
                vec![Step::Heal],
            ]),
        },
        symptom_oracles: vec!["reliable_event_lost", "event_before_replication"],
    });

    // F20 (known), mutation variant: a mutate message naming update tick 0 is applied (and its data
    // dropped as unknown) before the tick-0 update message that spawns the entity.
    v.push(Scenario {
        id: "F20",
        props: vec!["C01", "C02"],
        trace: Trace {
            profile: prof(),
            steps: cat(vec![
                start(),
                vec![spawn(0, &[Kind::A]), sf(false)],
                vec![mutate(0, Kind::A), sf(true), del(0, Chan::Mutations), cf(0), up(0, Chan::Acks), sf(false)],
                vec![del(0, Chan::Updates), cf(0)],
                vec![Step::Insert { slot: 0, kind: Kind::B, extra: 0 }],
                round(),
                vec![Step::Heal],
            ]),
        },
        symptom_oracles: vec!["value", "value_at_confirmed_tick"],
    });

    // Malformed bytes of one client ahead of another client's valid message on the same channel, in the
    // same server frame (regression of the seeded change C06-b): the valid message is still handled.
    let mut p = prof();
    p.clients = 2;
    v.push(Scenario {
        id: "byz_event_same_frame",
        props: vec!["C06", "C05"],
        trace: Trace {
            profile: p.clone(),
            steps: cat(vec![
                vec![Step::ServerStart, Step::Connect { client: 0 }, Step::Connect { client: 1 }],
                vec![sf(true), cf(0), cf(1)],
                vec![Step::ClientEmit { client: 1, ev: CEv::Ord, target: None }, cf(1)],
                vec![Step::Inject { client: 0, channel: Chans { proto: false }.cev(CEv::Ord) as u8, bytes: vec![] }],
                vec![up(1, Chan::CEv(CEv::Ord)), sf(true), sf(true)],
                vec![Step::Heal],
            ]),
        },
        symptom_oracles: vec![],
    });
    p.app.auth = 0;
    v.push(Scenario {
        id: "byz_hash_same_frame",
        props: vec!["C06", "C07"],
        trace: Trace {
            profile: p,
            steps: cat(vec![
                vec![Step::ServerStart, Step::Connect { client: 0 }, Step::Connect { client: 1 }],
                vec![cf(1)],
                vec![Step::Inject { client: 0, channel: 1, bytes: vec![] }],
                vec![up(1, Chan::ProtoHash), sf(true), sf(true), sf(true)],
                vec![Step::Heal],
            ]),
        },
        symptom_oracles: vec![],
    });

    v
}
