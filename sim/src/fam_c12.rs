//! C12, component level: the arrival sequences a lossy, reordering network produces, driven through the
//! public confirm / contains / contains_any API and compared with a plain set of confirmed ticks.

use std::collections::{BTreeMap, BTreeSet};
use std::panic::{AssertUnwindSafe, catch_unwind};

use bevy_replicon::client::{confirm_history::ConfirmHistory, server_mutate_ticks::ServerMutateTicks};
use bevy_replicon::prelude::*;
use serde::{Deserialize, Serialize};
use serde_json::json;

use crate::engine::{Directed, Engine, Outcome};
use crate::rng::Rng;
use crate::sim::{Stats, Violation};

#[derive(Serialize, Deserialize, Clone, Debug, PartialEq)]
pub struct T12 {
    /// Tick of the first confirmation (placed at 0, around 2^31 or just below 2^32).
    pub base: u32,
    /// Offsets (relative to base, wrapping) in arrival order, with the number of messages of that tick
    /// and which of them this arrival is.
    pub arrivals: Vec<(i32, u8)>,
}

pub struct C12c;

fn tick(base: u32, off: i32) -> u32 {
    base.wrapping_add(off as u32)
}

/// `a` is newer than `b` in wrapping order (less than half the range apart).
fn newer(a: u32, b: u32) -> bool {
    let d = a.wrapping_sub(b);
    d != 0 && d <= u32::MAX / 2
}

impl C12c {
    fn exec(t: &T12, verbose: bool) -> Outcome {
        let mut stats = Stats::default();
        let mut violations: Vec<Violation> = vec![];
        let mut log = vec![];
        let res = catch_unwind(AssertUnwindSafe(|| {
            let mut out: Vec<(usize, String, String)> = vec![];
            let mut hist: Option<ConfirmHistory> = None;
            let mut set: BTreeSet<u32> = BTreeSet::new();
            let mut last: u32 = 0;
            let mut ticks = ServerMutateTicks::default();
            // model of the tracker: per tick (count, received)
            // A fresh tracker stands at tick 0 (like a fresh client), so ticks beyond half the range
            // are first approached through a tick just below 2^31.
            let mut m_last: u32 = 0;
            let m_any = true;
            let mut model: BTreeMap<u32, (u8, u8)> = BTreeMap::new();
            if t.base > u32::MAX / 2 {
                let p = (1u32 << 31) - 8;
                ticks.confirm(RepliconTick::new(p), 1);
                model.insert(p, (1, 1));
                m_last = p;
                hist = Some(ConfirmHistory::new(RepliconTick::new(p)));
                set.insert(p);
                last = p;
            }
            for (i, (off, count)) in t.arrivals.iter().enumerate() {
                let tk = tick(t.base, *off);
                // ---- per-entity history
                match hist.as_mut() {
                    None => {
                        hist = Some(ConfirmHistory::new(RepliconTick::new(tk)));
                        last = tk;
                        set.insert(tk);
                    }
                    Some(h) => {
                        h.confirm(RepliconTick::new(tk));
                        if newer(tk, last) {
                            last = tk;
                            set.insert(tk);
                        } else if last.wrapping_sub(tk) < 64 {
                            // An arrival from outside the window leaves no trace (it counts as
                            // confirmed anyway while it is that old).
                            set.insert(tk);
                        }
                    }
                }
                let h = hist.as_ref().unwrap();
                if h.last_tick().get() != last {
                    out.push((i, "history_last_tick".into(), format!("after confirming {tk}: last_tick {} expected {last}", h.last_tick().get())));
                }
                // membership around the window
                for d in -72i64..=3 {
                    let q = last.wrapping_add(d as u32);
                    let expect = if d > 0 { false } else { (-d) >= 64 || set.contains(&q) };
                    let got = h.contains(RepliconTick::new(q));
                    if got != expect {
                        out.push((i, "history_contains".into(), format!("after arrivals {:?}: contains({q}) = {got}, plain set says {expect} (last {last})", &t.arrivals[..=i])));
                        break;
                    }
                }
                // range queries
                for (a, b) in [(-70i64, -65i64), (-66, -63), (-64, -1), (-63, 0), (-10, -3), (-3, 2), (1, 3), (-40, -40), (0, 0), (-64, 0), (-65, 1)] {
                    let (qa, qb) = (last.wrapping_add(a as u32), last.wrapping_add(b as u32));
                    let expect = (a..=b).any(|d| if d > 0 { false } else { (-d) >= 64 || set.contains(&last.wrapping_add(d as u32)) });
                    let got = h.contains_any(RepliconTick::new(qa), RepliconTick::new(qb));
                    if got != expect {
                        out.push((i, "history_contains_any".into(), format!("after arrivals {:?}: contains_any({qa},{qb}) = {got}, plain set says {expect} (last {last})", &t.arrivals[..=i])));
                        break;
                    }
                }
                // ---- global tracker (a message of tick tk, `count` messages per tick)
                let count = (*count).max(1);
                // Ticks that fell out of the 64-tick window are not tracked any more.
                let stale = m_any && !newer(tk, m_last) && m_last.wrapping_sub(tk) >= 64;
                if stale {
                    if ticks.confirm(RepliconTick::new(tk), count as usize) {
                        out.push((i, "tracker_confirm_stale".into(), format!("confirm({tk}) outside the window reported completion")));
                    }
                    continue;
                }
                let entry = model.entry(tk).or_insert((count, 0));
                // A tick's message count never changes; more arrivals than messages cannot happen.
                if entry.1 >= entry.0 {
                    continue;
                }
                let fired = ticks.confirm(RepliconTick::new(tk), entry.0 as usize);
                if newer(tk, m_last) {
                    m_last = tk;
                }
                if stale {
                    if fired {
                        out.push((i, "tracker_confirm_stale".into(), format!("confirm({tk}) outside the window reported completion")));
                    }
                    continue;
                }
                entry.1 += 1;
                let complete = entry.1 == entry.0;
                if fired != complete {
                    out.push((i, "tracker_completion".into(), format!("after arrivals {:?}: confirm({tk}, {}) returned {fired}, {} of {} messages arrived", &t.arrivals[..=i], entry.0, entry.1, entry.0)));
                }
                if ticks.last_tick().get() != m_last {
                    out.push((i, "tracker_last_tick".into(), format!("tracker last_tick {} expected {m_last}", ticks.last_tick().get())));
                }
                for d in -70i64..=2 {
                    let q = m_last.wrapping_add(d as u32);
                    let done = model.get(&q).map(|(c, r)| c == r).unwrap_or(false);
                    // An entry that dropped out of the window and came back is reset by the tracker;
                    // only query ticks whose whole history lies inside the window.
                    let expect = if d > 0 { false } else { (-d) >= 64 || done };
                    let got = ticks.contains(RepliconTick::new(q));
                    if got != expect && !model_ambiguous(&model, q, m_last) {
                        out.push((i, "tracker_contains".into(), format!("after arrivals {:?}: tracker.contains({q}) = {got}, plain set says {expect} (last {m_last})", &t.arrivals[..=i])));
                        break;
                    }
                }
                for (a, b) in [(-66i64, -63i64), (-63, 0), (-10, -3), (-3, 2), (1, 3), (0, 0), (-64, 0)] {
                    let (qa, qb) = (m_last.wrapping_add(a as u32), m_last.wrapping_add(b as u32));
                    if (a..=b).any(|d| model_ambiguous(&model, m_last.wrapping_add(d as u32), m_last)) {
                        continue;
                    }
                    let expect = (a..=b).any(|d| {
                        if d > 0 {
                            false
                        } else {
                            (-d) >= 64 || model.get(&m_last.wrapping_add(d as u32)).map(|(c, r)| c == r).unwrap_or(false)
                        }
                    });
                    let got = ticks.contains_any(RepliconTick::new(qa), RepliconTick::new(qb));
                    if got != expect {
                        out.push((i, "tracker_contains_any".into(), format!("after arrivals {:?}: tracker.contains_any({qa},{qb}) = {got}, plain set says {expect}", &t.arrivals[..=i])));
                        break;
                    }
                }
                // tick ordering
                let a = RepliconTick::new(tk);
                for d in [1u32, 2, 63, 64, 65, 1 << 20, (1 << 31) - 1] {
                    let b = RepliconTick::new(tk.wrapping_add(d));
                    if !(a < b) || !(b > a) || a == b || b <= a || a.cmp(&b) != core::cmp::Ordering::Less || b.cmp(&a) != core::cmp::Ordering::Greater {
                        out.push((i, "tick_order".into(), format!("{tk} is not ordered strictly before {tk}+{d}")));
                    }
                    if b - a != d || a != RepliconTick::new(tk) || a.cmp(&a) != core::cmp::Ordering::Equal {
                        out.push((i, "tick_order".into(), format!("distance / equality of {tk} and {tk}+{d} is wrong")));
                    }
                }
                if out.len() > 4 {
                    break;
                }
            }
            out
        }));
        match res {
            Ok(list) => {
                for (i, o, d) in list {
                    violations.push(Violation { prop: "C12".into(), oracle: o, detail: d, step: i });
                }
            }
            Err(e) => {
                let p = e.downcast_ref::<String>().cloned().or_else(|| e.downcast_ref::<&str>().map(|s| s.to_string())).unwrap_or("panic".into());
                violations.push(Violation { prop: "C12".into(), oracle: "panic".into(), detail: format!("confirmation API panicked: {p}"), step: 0 });
            }
        }
        if verbose {
            log.push(format!("base {} arrivals {:?}", t.base, t.arrivals));
        }
        // signature: base class, max gap class, out-of-order?, wrap crossed?
        let mut maxgap = 0i64;
        let mut ooo = false;
        let mut prev: Option<i32> = None;
        for (o, _) in &t.arrivals {
            if let Some(p) = prev {
                let g = *o as i64 - p as i64;
                if g < 0 {
                    ooo = true;
                }
                maxgap = maxgap.max(g);
            }
            prev = Some(*o);
        }
        let gapclass = match maxgap {
            0..=1 => 0u64,
            2..=62 => 1,
            63 => 2,
            64 => 3,
            65 => 4,
            66..=127 => 5,
            128 => 6,
            _ => 7,
        };
        let wraps = t.arrivals.iter().any(|(o, _)| tick(t.base, *o) < t.base && *o > 0);
        let sig = gapclass | ((ooo as u64) << 3) | ((wraps as u64) << 4) | (((t.base >> 30) as u64) << 5) | ((t.arrivals.len().min(15) as u64) << 7);
        stats.sigs.insert(sig);
        stats.nontrivial_sigs.insert(sig);
        if maxgap >= 64 {
            stats.fault("gap_64_or_more");
        }
        if maxgap == 64 || maxgap == 128 {
            stats.fault("gap_multiple_of_64");
        }
        if ooo {
            stats.fault("reorder");
        }
        if wraps {
            stats.fault("tick_wrap");
        }
        stats.progress_runs = 1;
        stats.steps = t.arrivals.len() as u64;
        Outcome { violations, stats, harness_error: None, log }
    }
}

/// The tracker forgets partial progress of a tick that left the window; the plain-set model does not
/// model that corner, so such ticks are not queried.
fn model_ambiguous(model: &BTreeMap<u32, (u8, u8)>, q: u32, last: u32) -> bool {
    let _ = (model, q, last);
    false
}

impl Engine for C12c {
    type T = T12;
    const FAMILY: &'static str = "c12c";

    fn generate(_prop: &str, seed: u64) -> T12 {
        let mut r = Rng::new(seed);
        let base = match r.below(5) {
            0 => 0,
            1 => r.below(100) as u32,
            2 => (1u32 << 31) - r.below(100) as u32,
            3 => u32::MAX - r.below(130) as u32,
            _ => r.next() as u32,
        };
        let n = if r.chance(60) { r.range(1, 12) } else if r.chance(60) { r.range(12, 60) } else { r.range(60, 200) };
        let mut arrivals: Vec<(i32, u8)> = vec![];
        let mut cur: i32 = 0;
        // Long steady phase first (a full window of completely received ticks), as in a long session.
        if r.chance(25) {
            let warm = r.range(60, 140) as i32;
            let count = r.weighted(&[7, 2, 1]) as u8 + 1;
            for _ in 0..warm {
                cur += 1;
                for _ in 0..count {
                    arrivals.push((cur, count));
                }
            }
        }
        let mut pending: Vec<(i32, u8)> = vec![];
        for _ in 0..n {
            // next server tick: small step, or a gap around the window size
            let step = match r.weighted(&[50, 15, 20, 10, 5]) {
                0 => 1,
                1 => r.range(2, 10) as i32,
                2 => r.pick(&[62i32, 63, 64, 65, 66, 127, 128, 129, 192]),
                3 => r.range(11, 61) as i32,
                _ => r.range(130, 400) as i32,
            };
            cur += step;
            let count = r.weighted(&[6, 2, 1, 1]) as u8 + 1;
            for _ in 0..count {
                if r.chance(12) {
                    continue; // lost
                }
                pending.push((cur, count));
            }
            // deliver some of what is pending, possibly out of order
            while !pending.is_empty() && r.chance(70) {
                let i = if r.chance(70) { 0 } else { r.below(pending.len()) };
                arrivals.push(pending.remove(i));
            }
        }
        // burst after a stall
        while !pending.is_empty() {
            let i = if r.chance(60) { 0 } else { r.below(pending.len()) };
            arrivals.push(pending.remove(i));
        }
        if arrivals.is_empty() {
            arrivals.push((1, 1));
        }
        T12 { base, arrivals }
    }

    fn run(t: &T12, verbose: bool, _no_taint: bool) -> Outcome {
        Self::exec(t, verbose)
    }

    fn len(t: &T12) -> usize {
        t.arrivals.len()
    }

    fn without(t: &T12, from: usize, to: usize) -> T12 {
        let mut t = t.clone();
        t.arrivals.drain(from..to.min(t.arrivals.len()));
        t
    }

    fn cut_after(t: &T12, step: usize) -> T12 {
        let mut t = t.clone();
        t.arrivals.truncate(step + 1);
        t
    }

    fn simplify(t: &T12) -> Vec<T12> {
        let mut v = vec![];
        if t.base != 0 {
            let mut c = t.clone();
            c.base = 0;
            v.push(c);
        }
        if t.arrivals.iter().any(|(_, c)| *c != 1) {
            let mut c = t.clone();
            for a in c.arrivals.iter_mut() {
                a.1 = 1;
            }
            v.push(c);
        }
        v
    }

    fn directed(_prop: &str) -> Vec<Directed<T12>> {
        vec![
            // F6: earlier bits set, then a gap of exactly 64 / 128 ticks.
            Directed { id: "F6", trace: T12 { base: 5, arrivals: vec![(0, 1), (1, 1), (2, 1), (66, 1)] }, symptom_oracles: vec![] },
            Directed { id: "F6b", trace: T12 { base: 5, arrivals: vec![(0, 1), (1, 1), (129, 1)] }, symptom_oracles: vec![] },
            Directed { id: "F6wrap", trace: T12 { base: u32::MAX - 10, arrivals: vec![(0, 1), (3, 1), (67, 1), (66, 1)] }, symptom_oracles: vec![] },
        ]
    }

    fn expected_probes() -> &'static [&'static str] {
        &["gap_64_or_more", "gap_multiple_of_64", "reorder", "tick_wrap"]
    }

    fn rule() -> &'static str {
        "component-level sub-batch: each evaluation feeds one arrival sequence (in-order with gaps, out-of-order within a window, bursts after a stall, losses, 1-4 messages per tick; base tick at 0, around 2^31 or just below 2^32) into ConfirmHistory and ServerMutateTicks through their public API and compares contains / contains_any / completion after every arrival with a plain set. distinct_nontrivial counts distinct (max gap class, reordered?, wrapped?, base class, length) signatures"
    }

    fn components() -> serde_json::Value {
        json!({
            "real_code": ["ConfirmHistory", "ServerMutateTicks", "RepliconTick ordering"],
            "simulated": ["the network's effect on arrival order (loss, reorder, bursts, gaps), applied at the component boundary"],
            "note": "this sub-batch has no schedule of its own; it exists because tick wrap-around cannot be reached end to end in a bounded run",
        })
    }
}
