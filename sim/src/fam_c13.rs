//! C13: one app moving between singleplayer, listen server, dedicated server and client; every local
//! event is handled through exactly one path, exactly once.

use std::collections::BTreeMap;
use std::panic::{AssertUnwindSafe, catch_unwind};

use bevy::prelude::*;
use bevy_replicon::prelude::*;
use bytes::Bytes;
use serde::{Deserialize, Serialize};
use serde_json::json;

use crate::engine::{Directed, Engine, Outcome};
use crate::pool::*;
use crate::rng::Rng;
use crate::sim::{Stats, Violation};
use crate::wire;

#[derive(Serialize, Deserialize, Clone, Copy, Debug, PartialEq)]
pub enum M13 {
    Broadcast,
    ExceptServer,
    ExceptRemote0,
    DirectServer,
    DirectRemote0,
}

#[derive(Serialize, Deserialize, Clone, Debug, PartialEq)]
pub enum S13 {
    ServerRun(bool),
    /// 0 disconnected, 1 connecting, 2 connected
    ClientStatus(u8),
    RemoteConnect(u8),
    RemoteDisconnect(u8),
    EmitClient { ev: CEv, target: bool },
    EmitServer { ev: SEv, mode: M13, target: bool },
    Frame { dt_ms: u32 },
}

#[derive(Serialize, Deserialize, Clone, Debug, PartialEq)]
pub struct T13 {
    pub role: Role,
    pub auth: u8,
    pub steps: Vec<S13>,
}

#[derive(Clone, Debug)]
struct CRec {
    seq: u32,
    kind: CEv,
    /// Client status in the frame that emitted it (None for a dedicated server).
    status: Option<u8>,
    frame: u64,
    wire: u32,
    local: Vec<Entity>,
}

#[derive(Clone, Debug)]
struct SRec {
    seq: u32,
    kind: SEv,
    mode: M13,
    running: bool,
    status: Option<u8>,
    /// Remote clients (entities) that must get it.
    expect_remote: Vec<Entity>,
    wire: BTreeMap<u64, u32>,
    local: u32,
}

pub struct C13;

fn upd(app: &mut App) -> Result<(), String> {
    catch_unwind(AssertUnwindSafe(|| app.update())).map_err(|e| {
        e.downcast_ref::<String>().cloned().or_else(|| e.downcast_ref::<&str>().map(|s| s.to_string())).unwrap_or("panic".into())
    })
}

impl C13 {
    fn exec(t: &T13, verbose: bool) -> Outcome {
        let mut stats = Stats::default();
        let mut violations: Vec<Violation> = vec![];
        let mut log = vec![];
        let cfg = AppCfg { auth: t.auth, tick_policy: 1, ..Default::default() };
        let chans = Chans { proto: t.auth == 0 };
        let mut app = build_app(&cfg, t.role);
        let has_client = t.role != Role::ServerOnly;
        let has_server = t.role != Role::ClientOnly;
        let mut remotes: [Option<Entity>; 2] = [None, None];
        let mut running = false;
        let mut status: u8 = 0;
        let mut seq = 0u32;
        let mut crecs: Vec<CRec> = vec![];
        let mut srecs: Vec<SRec> = vec![];
        let mut pending_c: Vec<(CEv, bool)> = vec![];
        let mut pending_s: Vec<(SEv, M13, bool)> = vec![];
        let mut frames = 0u64;
        let target_ent = app.world_mut().spawn_empty().id();
        let mut dead = false;

        // Epilogue: counts must be final — more frames, a status change, more frames.
        // (A real transition: through "connecting" and back for apps with the client plugin, a server
        // stop for a dedicated server.)
        let mut epilogue = vec![S13::Frame { dt_ms: 16 }, S13::Frame { dt_ms: 16 }];
        epilogue.push(S13::ServerRun(false));
        epilogue.push(S13::Frame { dt_ms: 16 });
        epilogue.push(S13::ClientStatus(1));
        epilogue.push(S13::Frame { dt_ms: 16 });
        epilogue.push(S13::ClientStatus(0));
        epilogue.extend([S13::Frame { dt_ms: 16 }, S13::Frame { dt_ms: 20 }, S13::Frame { dt_ms: 16 }, S13::Frame { dt_ms: 16 }]);
        let n_steps = t.steps.len();

        for (i, step) in t.steps.iter().chain(epilogue.iter()).enumerate() {
            if dead {
                break;
            }
            stats.steps += 1;
            if verbose && i < n_steps {
                log.push(format!("{i}: {step:?}"));
            }
            match step {
                S13::ServerRun(on) => {
                    if !has_server || running == *on {
                        continue;
                    }
                    // Supported configurations: a running server is not at the same time a client.
                    if *on && status != 0 {
                        continue;
                    }
                    app.world_mut().resource_mut::<RepliconServer>().set_running(*on);
                    running = *on;
                    if !*on {
                        remotes = [None, None];
                    }
                    stats.fault(if *on { "server_start" } else { "server_stop" });
                }
                S13::ClientStatus(s) => {
                    if !has_client || status == *s {
                        continue;
                    }
                    if *s != 0 && running {
                        continue;
                    }
                    let st = match s {
                        1 => RepliconClientStatus::Connecting,
                        2 => RepliconClientStatus::Connected,
                        _ => RepliconClientStatus::Disconnected,
                    };
                    app.world_mut().resource_mut::<RepliconClient>().set_status(st);
                    status = *s;
                    stats.fault(["client_disconnected", "client_connecting", "client_connected"][(*s).min(2) as usize]);
                }
                S13::RemoteConnect(r) => {
                    let r = (*r as usize) % 2;
                    if running && remotes[r].is_none() {
                        remotes[r] = Some(app.world_mut().spawn(ConnectedClient { max_size: 1200 }).id());
                    }
                }
                S13::RemoteDisconnect(r) => {
                    let r = (*r as usize) % 2;
                    if let Some(e) = remotes[r].take() {
                        if let Ok(w) = app.world_mut().get_entity_mut(e) {
                            w.despawn();
                        }
                    }
                }
                S13::EmitClient { ev, target } => {
                    if has_client || has_server {
                        pending_c.push((*ev, *target));
                    }
                }
                S13::EmitServer { ev, mode, target } => pending_s.push((*ev, *mode, *target)),
                S13::Frame { dt_ms } => {
                    frames += 1;
                    stats.server_frames += 1;
                    stats.sim_ms += *dt_ms as u64;
                    // The library despawns remote clients itself after a stop.
                    for r in remotes.iter_mut() {
                        if let Some(e) = *r {
                            if app.world().get_entity(e).is_err() {
                                *r = None;
                            }
                        }
                    }
                    let mut ems = vec![];
                    for (ev, target) in pending_c.drain(..) {
                        if ev == CEv::Map {
                            continue;
                        }
                        seq += 1;
                        // A target that the entity map cannot translate makes the library withhold a trigger
                        // sent to a remote server (by design), so targets are used for local handling only.
                        let tgt = target.then_some(target_ent).filter(|_| ev == CEv::Trig && status != 2);
                        ems.push(Em::C { ev, seq, target: tgt });
                        crecs.push(CRec { seq, kind: ev, status: has_client.then_some(status), frame: frames, wire: 0, local: vec![] });
                        Stats::bump(&mut stats.ops, "client_event");
                    }
                    for (ev, mode, target) in pending_s.drain(..) {
                        let m = match mode {
                            M13::Broadcast => SendMode::Broadcast,
                            M13::ExceptServer => SendMode::BroadcastExcept(SERVER),
                            M13::DirectServer => SendMode::Direct(SERVER),
                            M13::ExceptRemote0 => match remotes[0] {
                                Some(e) => SendMode::BroadcastExcept(e),
                                None => continue,
                            },
                            M13::DirectRemote0 => match remotes[0] {
                                Some(e) => SendMode::Direct(e),
                                None => continue,
                            },
                        };
                        seq += 1;
                        // Entity arguments would need a replicated world; the trigger target is local only.
                        ems.push(Em::S { ev, mode: m, seq, target: target.then_some(target_ent).filter(|_| ev == SEv::Trig) });
                        let live: Vec<Entity> = remotes.iter().flatten().copied().collect();
                        let expect_remote: Vec<Entity> = if !running || !has_server {
                            vec![]
                        } else {
                            match mode {
                                M13::Broadcast | M13::ExceptServer => live.clone(),
                                M13::DirectServer => vec![],
                                M13::ExceptRemote0 => live.iter().copied().filter(|e| Some(*e) != remotes[0]).collect(),
                                M13::DirectRemote0 => remotes[0].into_iter().collect(),
                            }
                        };
                        // Dependent events reach only authorised clients (auth None => all).
                        let expect_remote = if t.auth != 1 && ev != SEv::Ind { vec![] } else { expect_remote };
                        srecs.push(SRec { seq, kind: ev, mode, running: running && has_server, status: has_client.then_some(status), expect_remote, wire: BTreeMap::new(), local: 0 });
                        Stats::bump(&mut stats.ops, "server_event");
                    }
                    app.world_mut().resource_mut::<PendingEmits>().0 = ems;
                    set_dt(&mut app, *dt_ms);
                    if let Err(p) = upd(&mut app) {
                        violations.push(Violation { prop: "C13".into(), oracle: "panic".into(), detail: format!("frame panicked: {p}"), step: i.min(n_steps) });
                        dead = true;
                        continue;
                    }
                    // local observations
                    let (sev, cev) = {
                        let mut p = app.world_mut().resource_mut::<Probe>();
                        (std::mem::take(&mut p.sev), std::mem::take(&mut p.cev))
                    };
                    for o in cev {
                        if let Some(r) = crecs.iter_mut().find(|r| r.seq == o.seq) {
                            r.local.push(o.client);
                        }
                    }
                    for o in sev {
                        if let Some(r) = srecs.iter_mut().find(|r| r.seq == o.seq) {
                            r.local += 1;
                        }
                    }
                    // wire
                    if has_client {
                        let sent: Vec<(usize, Bytes)> = app.world_mut().resource_mut::<RepliconClient>().drain_sent().collect();
                        for (ch, b) in sent {
                            stats.messages += 1;
                            if status != 2 {
                                violations.push(Violation { prop: "C13".into(), oracle: "sent_without_connection".into(), detail: format!("client put {} bytes on channel {ch} while not connected", b.len()), step: i.min(n_steps) });
                            }
                            if let Some(k) = chans.cev_of(ch) {
                                if let Ok(m) = wire::decode_cev(&b, k) {
                                    if let Some(r) = crecs.iter_mut().find(|r| r.seq == m.seq) {
                                        r.wire += 1;
                                    }
                                }
                            }
                        }
                    }
                    if has_server {
                        let sent: Vec<(Entity, usize, Bytes)> = app.world_mut().resource_mut::<RepliconServer>().drain_sent().collect();
                        for (ce, ch, b) in sent {
                            stats.messages += 1;
                            if !running {
                                violations.push(Violation { prop: "C13".into(), oracle: "sent_without_connection".into(), detail: format!("server put {} bytes on channel {ch} while not running", b.len()), step: i.min(n_steps) });
                            }
                            if let Some(k) = chans.sev_of(ch) {
                                if let Ok(m) = wire::decode_sev(&b, k) {
                                    if let Some(r) = srecs.iter_mut().find(|r| r.seq == m.seq) {
                                        *r.wire.entry(ce.to_bits()).or_insert(0) += 1;
                                    }
                                }
                            }
                        }
                    }
                    let sig = (status as u64) | ((running as u64) << 2) | ((remotes.iter().flatten().count() as u64) << 3) | ((t.role as u64) << 5) | (((*dt_ms >= 16) as u64) << 7);
                    stats.sigs.insert(sig);
                    stats.nontrivial_sigs.insert(sig | ((crecs.len().min(3) as u64) << 8) | ((srecs.len().min(3) as u64) << 10));
                }
            }
        }

        if !dead {
            let end = n_steps;
            let mut v = |oracle: &str, detail: String| {
                if violations.len() < 16 {
                    violations.push(Violation { prop: "C13".into(), oracle: oracle.into(), detail, step: end });
                }
            };
            for r in &crecs {
                let local = r.local.len() as u32;
                if let Some(bad) = r.local.iter().find(|e| **e != SERVER) {
                    v("local_event_wrong_sender", format!("client event seq {} observed locally with sender {bad} instead of SERVER", r.seq));
                }
                if local + r.wire > 1 {
                    v("handled_twice", format!("client event {:?} seq {} (emitted in frame {} with client status {:?}) was observed locally {local} times and put on the wire {} times", r.kind, r.seq, r.frame, r.status, r.wire));
                    continue;
                }
                match (t.role, r.status) {
                    (Role::ServerOnly, _) => {
                        if r.wire != 0 {
                            v("dedicated_server_sent", format!("dedicated server put client event seq {} on the wire", r.seq));
                        }
                    }
                    (_, Some(2)) => {
                        if r.wire != 1 || local != 0 {
                            v("connected_event_path", format!("client event {:?} seq {} emitted while connected: wire {} local {local} (expected 1 / 0)", r.kind, r.seq, r.wire));
                        }
                    }
                    (Role::Full, Some(0)) => {
                        if local != 1 || r.wire != 0 {
                            v("local_event_path", format!("client event {:?} seq {} emitted in frame {} while server/singleplayer: local {local} wire {} (expected 1 / 0)", r.kind, r.seq, r.frame, r.wire));
                        }
                    }
                    _ => {}
                }
            }
            for r in &srecs {
                let server_is_recipient = matches!(r.mode, M13::Broadcast | M13::DirectServer | M13::ExceptRemote0);
                if r.local > 1 {
                    v("server_event_local_twice", format!("server event {:?} seq {} observed locally {} times", r.kind, r.seq, r.local));
                    continue;
                }
                let acts_as_server = r.status.map(|s| s == 0).unwrap_or(true);
                if acts_as_server && t.role == Role::Full {
                    let want = server_is_recipient as u32;
                    if r.local != want {
                        v("server_event_local_count", format!("server event {:?} seq {} mode {:?} (server running={}, client status {:?}) observed locally {} times, expected {want}", r.kind, r.seq, r.mode, r.running, r.status, r.local));
                    }
                }
                if !r.running {
                    if !r.wire.is_empty() {
                        v("server_event_sent_without_server", format!("server event seq {} put on the wire although the server was not running", r.seq));
                    }
                    continue;
                }
                for e in &r.expect_remote {
                    let n = r.wire.get(&e.to_bits()).copied().unwrap_or(0);
                    if n != 1 && r.kind != SEv::Unrel {
                        v("server_event_wire_count", format!("server event {:?} seq {} mode {:?}: {n} messages for remote client {e}, expected 1", r.kind, r.seq, r.mode));
                    }
                }
                for (e, n) in &r.wire {
                    if !r.expect_remote.iter().any(|x| x.to_bits() == *e) || *n > 1 {
                        v("server_event_wire_extra", format!("server event {:?} seq {} mode {:?}: {n} messages for client {e:#x} (intended {:?})", r.kind, r.seq, r.mode, r.expect_remote));
                    }
                }
            }
        }
        stats.progress_runs = 1;
        Outcome { violations, stats, harness_error: None, log }
    }
}

impl Engine for C13 {
    type T = T13;
    const FAMILY: &'static str = "c13";

    fn generate(_prop: &str, seed: u64) -> T13 {
        let mut r = Rng::new(seed);
        let role = [Role::Full, Role::Full, Role::ServerOnly, Role::ClientOnly][r.below(4)];
        let auth = if r.chance(35) { 0 } else { 1 };
        let mut steps = vec![];
        let n = if r.chance(70) { r.range(2, 10) } else { r.range(10, 40) };
        let mut status = 0u8;
        let mut running = false;
        for _ in 0..n {
            // configuration transition
            if r.chance(35) {
                match r.below(4) {
                    0 => {
                        running = !running && status == 0;
                        steps.push(S13::ServerRun(running));
                    }
                    1 | 2 => {
                        let s = if running { 0 } else { r.below(3) as u8 };
                        status = s;
                        steps.push(S13::ClientStatus(s));
                    }
                    _ => {
                        if r.chance(70) {
                            steps.push(S13::RemoteConnect(r.below(2) as u8));
                        } else {
                            steps.push(S13::RemoteDisconnect(r.below(2) as u8));
                        }
                    }
                }
            }
            for _ in 0..r.weighted(&[3, 5, 2]) {
                if r.chance(55) {
                    let ev = r.pick(&[CEv::Ord, CEv::Trig, CEv::Unord, CEv::Unrel]);
                    steps.push(S13::EmitClient { ev, target: r.chance(40) });
                } else {
                    let ev = r.pick(&[SEv::Unord, SEv::Ind, SEv::Trig, SEv::Unrel, SEv::Ord]);
                    let mode = r.pick(&[M13::Broadcast, M13::ExceptServer, M13::ExceptRemote0, M13::DirectServer, M13::DirectRemote0]);
                    steps.push(S13::EmitServer { ev, mode, target: r.chance(40) });
                }
            }
            let dt = r.pick(&[0u32, 1, 5, 16, 16, 16, 20, 50]);
            steps.push(S13::Frame { dt_ms: dt });
        }
        T13 { role, auth, steps }
    }

    fn run(t: &T13, verbose: bool, _no_taint: bool) -> Outcome {
        Self::exec(t, verbose)
    }

    fn len(t: &T13) -> usize {
        t.steps.len()
    }

    fn without(t: &T13, from: usize, to: usize) -> T13 {
        let mut t = t.clone();
        t.steps.drain(from..to.min(t.steps.len()));
        t
    }

    fn cut_after(t: &T13, _step: usize) -> T13 {
        t.clone()
    }

    fn simplify(t: &T13) -> Vec<T13> {
        let mut v = vec![];
        if t.auth != 1 {
            let mut c = t.clone();
            c.auth = 1;
            v.push(c);
        }
        let mut c = t.clone();
        let mut any = false;
        for s in c.steps.iter_mut() {
            if let S13::Frame { dt_ms } = s {
                if *dt_ms != 16 {
                    *dt_ms = 16;
                    any = true;
                }
            }
        }
        if any {
            v.push(c);
        }
        v
    }

    fn directed(_prop: &str) -> Vec<Directed<T13>> {
        let f = |dt: u32| S13::Frame { dt_ms: dt };
        vec![
            // F13: event sent to the remote server, client disconnects while it is still buffered.
            Directed {
                id: "F13",
                trace: T13 {
                    role: Role::Full,
                    auth: 1,
                    steps: vec![S13::ClientStatus(2), f(16), S13::EmitClient { ev: CEv::Ord, target: false }, f(1), S13::ClientStatus(0), f(1), f(1)],
                },
                symptom_oracles: vec![],
            },
            Directed {
                id: "F13proto",
                trace: T13 { role: Role::Full, auth: 0, steps: vec![S13::ClientStatus(2), f(1), S13::ClientStatus(0), f(1), f(1)] },
                symptom_oracles: vec![],
            },
            // F19: trigger emitted in the last singleplayer frame before connecting.
            Directed {
                id: "F19",
                trace: T13 {
                    role: Role::Full,
                    auth: 1,
                    steps: vec![f(16), S13::EmitClient { ev: CEv::Trig, target: false }, f(16), S13::ClientStatus(1), f(16), f(16)],
                },
                symptom_oracles: vec![],
            },
        ]
    }

    fn expected_probes() -> &'static [&'static str] {
        &["server_start", "server_stop", "client_connected", "client_connecting", "client_disconnected"]
    }

    fn rule() -> &'static str {
        "each evaluation is one simulated life of a single real app (Full, dedicated-server or client-only plugin set) through a seeded sequence of configuration transitions (server start/stop, client disconnected/connecting/connected, remote clients joining/leaving), event and trigger emissions from inside Update, and frames with varied dt; per sequence number the local observations and the messages put on the wire are counted and must be final. distinct_nontrivial counts distinct (client status, server running, remote clients, role, dt class, events so far) signatures"
    }

    fn components() -> serde_json::Value {
        json!({
            "real_code": ["bevy_replicon client/server event plugins, common conditions, backend resources", "Bevy events and schedules"],
            "simulated": ["the backend (status changes, ConnectedClient entities, draining the send buffers)", "clock", "game logic"],
        })
    }
}
