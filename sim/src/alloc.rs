//! Counting allocator: records the largest single request made on the current thread (C06).

use std::alloc::{GlobalAlloc, Layout, System};
use std::cell::Cell;

thread_local! {
    static MAX: Cell<usize> = const { Cell::new(0) };
}

pub struct Counting;

#[inline]
fn note(size: usize) {
    let _ = MAX.try_with(|m| {
        if size > m.get() {
            m.set(size);
        }
    });
}

unsafe impl GlobalAlloc for Counting {
    unsafe fn alloc(&self, layout: Layout) -> *mut u8 {
        note(layout.size());
        unsafe { System.alloc(layout) }
    }
    unsafe fn dealloc(&self, ptr: *mut u8, layout: Layout) {
        unsafe { System.dealloc(ptr, layout) }
    }
    unsafe fn alloc_zeroed(&self, layout: Layout) -> *mut u8 {
        note(layout.size());
        unsafe { System.alloc_zeroed(layout) }
    }
    unsafe fn realloc(&self, ptr: *mut u8, layout: Layout, new_size: usize) -> *mut u8 {
        note(new_size);
        unsafe { System.realloc(ptr, layout, new_size) }
    }
}

pub fn reset_max() {
    MAX.with(|m| m.set(0));
}

pub fn take_max() -> usize {
    MAX.with(|m| m.replace(0))
}
