//! Component and event pool compiled into the harness, and construction of the real apps.
//!
//! Everything here is "game code" from the library's point of view: it only uses public API.

use std::collections::BTreeMap;
use std::time::Duration;

use bevy::{
    ecs::entity::MapEntities,
    prelude::*,
    time::TimeUpdateStrategy,
};
use bevy_replicon::{
    client::{
        ServerUpdateTick,
        confirm_history::EntityReplicated,
        server_mutate_ticks::MutateTickReceived,
    },
    prelude::*,
    server::server_tick::ServerTick,
    shared::replication::{
        replication_rules::ReplicationRules, track_mutate_messages::TrackAppExt,
    },
};
use serde::{Deserialize, Serialize};

pub const MAGIC: [u8; 6] = [0xC7, 0x56, 0x54, 0x41, 0x47, 0x9B];
pub const TAG_LEN: usize = 12;

/// Payload of every pooled data component: findable in raw bytes, attributable to one write.
#[derive(Clone, Copy, PartialEq, Eq, Debug, Serialize, Deserialize)]
pub struct Tag(pub [u8; TAG_LEN]);

impl Tag {
    pub fn new(slot: u8, kind: Kind, ver: u32) -> Self {
        let mut b = [0u8; TAG_LEN];
        b[..6].copy_from_slice(&MAGIC);
        b[6] = slot;
        b[7] = kind as u8;
        b[8..12].copy_from_slice(&ver.to_le_bytes());
        Tag(b)
    }
    pub fn slot(&self) -> u8 {
        self.0[6]
    }
    pub fn ver(&self) -> u32 {
        u32::from_le_bytes([self.0[8], self.0[9], self.0[10], self.0[11]])
    }
}

#[derive(Clone, Copy, PartialEq, Eq, PartialOrd, Ord, Debug, Serialize, Deserialize, Hash)]
#[repr(u8)]
pub enum Kind {
    A = 0,
    B = 1,
    S = 2,
    Imm = 3,
    O = 4,
    P = 5,
    Big = 6,
    X = 7,
    Y = 8,
    Ref = 9,
    Link = 10,
}

pub const ALL_KINDS: [Kind; 11] = [
    Kind::A,
    Kind::B,
    Kind::S,
    Kind::Imm,
    Kind::O,
    Kind::P,
    Kind::Big,
    Kind::X,
    Kind::Y,
    Kind::Ref,
    Kind::Link,
];

impl Kind {
    pub fn from_u8(v: u8) -> Option<Kind> {
        ALL_KINDS.get(v as usize).copied()
    }
    pub fn is_entity(self) -> bool {
        matches!(self, Kind::Ref | Kind::Link)
    }
}

macro_rules! tagged {
    ($name:ident $(, $attr:meta)?) => {
        #[derive(Component, Serialize, Deserialize, Clone, Copy, Debug, PartialEq)]
        $(#[$attr])?
        pub struct $name(pub Tag);
    };
}
tagged!(A);
tagged!(B);
tagged!(S, component(storage = "SparseSet"));
tagged!(Imm, component(immutable));
tagged!(O);
tagged!(P);
tagged!(X);
tagged!(Y);

#[derive(Component, Serialize, Deserialize, Clone, Debug, PartialEq)]
pub struct Big(pub Tag, pub Vec<u8>);

#[derive(Component, Serialize, Deserialize, Clone, Copy, Debug, PartialEq)]
pub struct Ref(#[entities] pub Entity);

#[derive(Component, Serialize, Deserialize, Clone, Copy, Debug, PartialEq)]
#[relationship(relationship_target = Links)]
pub struct LinkTo(pub Entity);

#[derive(Component, Debug, Default)]
#[relationship_target(relationship = LinkTo)]
pub struct Links(Vec<Entity>);

/// Not replicated.
#[derive(Component, Clone, Copy, Debug)]
pub struct Noise(pub u32);

/// Client-side command marker: entities carrying it keep every received value of `A` in `HistA`,
/// including values older than the newest one (`need_history`).
#[derive(Component, Clone, Copy, Debug)]
pub struct Pred;

/// (message tick, version) of every `A` value written through the marker functions.
#[derive(Component, Clone, Debug, Default)]
pub struct HistA(pub Vec<(u32, u32)>);

fn write_hist_a(
    ctx: &mut bevy_replicon::shared::replication::replication_registry::ctx::WriteCtx,
    rule_fns: &RuleFns<A>,
    entity: &mut bevy_replicon::shared::replication::deferred_entity::DeferredEntity,
    message: &mut bytes::Bytes,
) -> Result<()> {
    let a: A = rule_fns.deserialize(ctx, message)?;
    let tick = ctx.message_tick.get();
    // The component itself follows the newest tick only, like a game that renders the latest state.
    let newest = entity
        .get::<bevy_replicon::client::confirm_history::ConfirmHistory>()
        .map(|h| h.last_tick().get() <= tick)
        .unwrap_or(true);
    if let Some(mut h) = entity.get_mut::<HistA>() {
        h.0.push((tick, a.0.ver()));
    } else {
        entity.insert(HistA(vec![(tick, a.0.ver())]));
    }
    if newest {
        entity.insert(a);
    }
    Ok(())
}

fn remove_hist_a(
    _ctx: &mut bevy_replicon::shared::replication::replication_registry::ctx::RemoveCtx,
    entity: &mut bevy_replicon::shared::replication::deferred_entity::DeferredEntity,
) {
    entity.remove::<HistA>().remove::<A>();
}

/// Value of one component as the oracles compare it.
#[derive(Clone, Copy, PartialEq, Eq, Debug, Serialize, Deserialize, PartialOrd, Ord)]
pub enum Val {
    /// Version of a tagged component.
    Ver(u32),
    /// Version and payload length of `Big`.
    Big(u32, u32),
    /// Entity bits of `Ref` / `LinkTo` (in the id space of the world it was read from).
    Ent(u64),
}

pub type Comps = BTreeMap<Kind, Val>;

/// Reads all pooled components of an entity.
pub fn read_comps(world: &World, e: Entity) -> Comps {
    let mut m = Comps::new();
    let Ok(r) = world.get_entity(e) else {
        return m;
    };
    if let Some(c) = r.get::<A>() {
        m.insert(Kind::A, Val::Ver(c.0.ver()));
    }
    if let Some(c) = r.get::<B>() {
        m.insert(Kind::B, Val::Ver(c.0.ver()));
    }
    if let Some(c) = r.get::<S>() {
        m.insert(Kind::S, Val::Ver(c.0.ver()));
    }
    if let Some(c) = r.get::<Imm>() {
        m.insert(Kind::Imm, Val::Ver(c.0.ver()));
    }
    if let Some(c) = r.get::<O>() {
        m.insert(Kind::O, Val::Ver(c.0.ver()));
    }
    if let Some(c) = r.get::<P>() {
        m.insert(Kind::P, Val::Ver(c.0.ver()));
    }
    if let Some(c) = r.get::<Big>() {
        m.insert(Kind::Big, Val::Big(c.0.ver(), c.1.len() as u32));
    }
    if let Some(c) = r.get::<X>() {
        m.insert(Kind::X, Val::Ver(c.0.ver()));
    }
    if let Some(c) = r.get::<Y>() {
        m.insert(Kind::Y, Val::Ver(c.0.ver()));
    }
    if let Some(c) = r.get::<Ref>() {
        m.insert(Kind::Ref, Val::Ent(c.0.to_bits()));
    }
    if let Some(c) = r.get::<LinkTo>() {
        m.insert(Kind::Link, Val::Ent(c.0.to_bits()));
    }
    m
}

pub fn has_kind(world: &World, e: Entity, kind: Kind) -> bool {
    let Ok(r) = world.get_entity(e) else {
        return false;
    };
    match kind {
        Kind::A => r.contains::<A>(),
        Kind::B => r.contains::<B>(),
        Kind::S => r.contains::<S>(),
        Kind::Imm => r.contains::<Imm>(),
        Kind::O => r.contains::<O>(),
        Kind::P => r.contains::<P>(),
        Kind::Big => r.contains::<Big>(),
        Kind::X => r.contains::<X>(),
        Kind::Y => r.contains::<Y>(),
        Kind::Ref => r.contains::<Ref>(),
        Kind::Link => r.contains::<LinkTo>(),
    }
}

pub fn big_payload(ver: u32, len: usize) -> Vec<u8> {
    vec![(ver & 0x7f) as u8; len]
}

/// Inserts (or overwrites) a data component. `extra` is the payload length for `Big`.
pub fn insert_kind(world: &mut World, e: Entity, slot: u8, kind: Kind, ver: u32, extra: usize) {
    let Ok(mut w) = world.get_entity_mut(e) else {
        return;
    };
    let tag = Tag::new(slot, kind, ver);
    match kind {
        Kind::A => {
            w.insert(A(tag));
        }
        Kind::B => {
            w.insert(B(tag));
        }
        Kind::S => {
            w.insert(S(tag));
        }
        Kind::Imm => {
            w.insert(Imm(tag));
        }
        Kind::O => {
            w.insert(O(tag));
        }
        Kind::P => {
            w.insert(P(tag));
        }
        Kind::Big => {
            w.insert(Big(tag, big_payload(ver, extra)));
        }
        Kind::X => {
            w.insert(X(tag));
        }
        Kind::Y => {
            w.insert(Y(tag));
        }
        Kind::Ref | Kind::Link => {}
    }
}

pub fn insert_entity_kind(world: &mut World, e: Entity, kind: Kind, target: Entity) {
    let Ok(mut w) = world.get_entity_mut(e) else {
        return;
    };
    match kind {
        Kind::Ref => {
            w.insert(Ref(target));
        }
        Kind::Link => {
            w.insert(LinkTo(target));
        }
        _ => {}
    }
}

pub fn remove_kind(world: &mut World, e: Entity, kind: Kind) {
    let Ok(mut w) = world.get_entity_mut(e) else {
        return;
    };
    match kind {
        Kind::A => {
            w.remove::<A>();
        }
        Kind::B => {
            w.remove::<B>();
        }
        Kind::S => {
            w.remove::<S>();
        }
        Kind::Imm => {
            w.remove::<Imm>();
        }
        Kind::O => {
            w.remove::<O>();
        }
        Kind::P => {
            w.remove::<P>();
        }
        Kind::Big => {
            w.remove::<Big>();
        }
        Kind::X => {
            w.remove::<X>();
        }
        Kind::Y => {
            w.remove::<Y>();
        }
        Kind::Ref => {
            w.remove::<Ref>();
        }
        Kind::Link => {
            w.remove::<LinkTo>();
        }
    }
}

/// Mutates in place (through `Mut`, so only the change tick moves); returns false if absent.
/// `Imm` cannot be mutated in place and is re-inserted.
pub fn mutate_kind(world: &mut World, e: Entity, slot: u8, kind: Kind, ver: u32, extra: usize) -> bool {
    if !has_kind(world, e, kind) {
        return false;
    }
    let tag = Tag::new(slot, kind, ver);
    match kind {
        Kind::A => world.get_mut::<A>(e).unwrap().0 = tag,
        Kind::B => world.get_mut::<B>(e).unwrap().0 = tag,
        Kind::S => world.get_mut::<S>(e).unwrap().0 = tag,
        Kind::Imm => {
            world.entity_mut(e).insert(Imm(tag));
        }
        Kind::O => world.get_mut::<O>(e).unwrap().0 = tag,
        Kind::P => world.get_mut::<P>(e).unwrap().0 = tag,
        Kind::Big => {
            let mut b = world.get_mut::<Big>(e).unwrap();
            b.0 = tag;
            b.1 = big_payload(ver, extra);
        }
        Kind::X => world.get_mut::<X>(e).unwrap().0 = tag,
        Kind::Y => world.get_mut::<Y>(e).unwrap().0 = tag,
        Kind::Ref | Kind::Link => return false,
    }
    true
}

// ---------------------------------------------------------------------------------------------
// Events

#[derive(Clone, Copy, PartialEq, Eq, PartialOrd, Ord, Debug, Serialize, Deserialize, Hash)]
pub enum SEv {
    /// Mapped event on an ordered channel, optional entity reference.
    Ord = 0,
    Unord = 1,
    Unrel = 2,
    /// Independent event (ordered channel).
    Ind = 3,
    /// Server trigger with targets (ordered channel).
    Trig = 4,
}
pub const ALL_SEV: [SEv; 5] = [SEv::Ord, SEv::Unord, SEv::Unrel, SEv::Ind, SEv::Trig];

#[derive(Clone, Copy, PartialEq, Eq, PartialOrd, Ord, Debug, Serialize, Deserialize, Hash)]
pub enum CEv {
    Ord = 0,
    /// Mapped client event carrying an entity.
    Map = 1,
    /// Client trigger with targets.
    Trig = 2,
    /// Plain event on an unordered channel.
    Unord = 3,
    /// Plain event on an unreliable channel.
    Unrel = 4,
}
pub const ALL_CEV: [CEv; 5] = [CEv::Ord, CEv::Map, CEv::Trig, CEv::Unord, CEv::Unrel];

#[derive(Event, Serialize, Deserialize, Clone, Copy, Debug)]
pub struct SeOrd {
    pub seq: u32,
    pub ent: Option<Entity>,
}
impl MapEntities for SeOrd {
    fn map_entities<M: EntityMapper>(&mut self, m: &mut M) {
        if let Some(e) = self.ent.as_mut() {
            *e = m.get_mapped(*e);
        }
    }
}
#[derive(Event, Serialize, Deserialize, Clone, Copy, Debug)]
pub struct SeUnord {
    pub seq: u32,
}
#[derive(Event, Serialize, Deserialize, Clone, Copy, Debug)]
pub struct SeUnrel {
    pub seq: u32,
}
#[derive(Event, Serialize, Deserialize, Clone, Copy, Debug)]
pub struct SeInd {
    pub seq: u32,
}
#[derive(Event, Serialize, Deserialize, Clone, Copy, Debug)]
pub struct StTrig {
    pub seq: u32,
}
#[derive(Event, Serialize, Deserialize, Clone, Copy, Debug)]
pub struct CeOrd {
    pub seq: u32,
}
#[derive(Event, Serialize, Deserialize, Clone, Copy, Debug)]
pub struct CeMap {
    pub seq: u32,
    pub ent: Entity,
}
impl MapEntities for CeMap {
    fn map_entities<M: EntityMapper>(&mut self, m: &mut M) {
        self.ent = m.get_mapped(self.ent);
    }
}
#[derive(Event, Serialize, Deserialize, Clone, Copy, Debug)]
pub struct ExtraEv(pub u32);
#[derive(Event, Serialize, Deserialize, Clone, Copy, Debug)]
pub struct CeUnord {
    pub seq: u32,
}
#[derive(Event, Serialize, Deserialize, Clone, Copy, Debug)]
pub struct CeUnrel {
    pub seq: u32,
}
#[derive(Event, Serialize, Deserialize, Clone, Copy, Debug)]
pub struct CtTrig {
    pub seq: u32,
}

// ---------------------------------------------------------------------------------------------
// Emission from inside the frame ("game logic" in `Update`)

#[derive(Clone, Debug)]
pub enum Em {
    S { ev: SEv, mode: SendMode, seq: u32, target: Option<Entity> },
    C { ev: CEv, seq: u32, target: Option<Entity> },
}

#[derive(Resource, Default)]
pub struct PendingEmits(pub Vec<Em>);

fn emit_pending(world: &mut World) {
    let list = std::mem::take(&mut world.resource_mut::<PendingEmits>().0);
    for e in list {
        match e {
            Em::S { ev, mode, seq, target } => match ev {
                SEv::Ord => {
                    world.send_event(ToClients { mode, event: SeOrd { seq, ent: target } });
                }
                SEv::Unord => {
                    world.send_event(ToClients { mode, event: SeUnord { seq } });
                }
                SEv::Unrel => {
                    world.send_event(ToClients { mode, event: SeUnrel { seq } });
                }
                SEv::Ind => {
                    world.send_event(ToClients { mode, event: SeInd { seq } });
                }
                SEv::Trig => match target {
                    Some(t) => world.server_trigger_targets(ToClients { mode, event: StTrig { seq } }, t),
                    None => world.server_trigger(ToClients { mode, event: StTrig { seq } }),
                },
            },
            Em::C { ev, seq, target } => match ev {
                CEv::Ord => {
                    world.send_event(CeOrd { seq });
                }
                CEv::Map => {
                    if let Some(t) = target {
                        world.send_event(CeMap { seq, ent: t });
                    }
                }
                CEv::Trig => match target {
                    Some(t) => world.client_trigger_targets(CtTrig { seq }, t),
                    None => world.client_trigger(CtTrig { seq }),
                },
                CEv::Unord => {
                    world.send_event(CeUnord { seq });
                }
                CEv::Unrel => {
                    world.send_event(CeUnrel { seq });
                }
            },
        }
    }
}

// ---------------------------------------------------------------------------------------------
// Probes (harness systems inside the apps)

/// One observation of a server event by client-side (or local) game logic.
#[derive(Clone, Debug)]
pub struct SEvObs {
    pub kind: SEv,
    pub seq: u32,
    /// Entity carried by the event / first trigger target, already mapped by the library.
    pub ent: Option<Entity>,
    pub targets: Vec<Entity>,
    /// `ServerUpdateTick` when game logic saw it (None without the client plugin).
    pub update_tick: Option<u32>,
}

/// One observation of a client event by server-side logic.
#[derive(Clone, Debug)]
pub struct CEvObs {
    pub kind: CEv,
    pub seq: u32,
    pub client: Entity,
    pub ent: Option<Entity>,
    pub targets: Vec<Entity>,
}

#[derive(Resource, Default)]
pub struct Probe {
    /// `send_replication` ran in this frame (same run conditions).
    pub ticked: bool,
    pub sev: Vec<SEvObs>,
    pub cev: Vec<CEvObs>,
    pub disconnect_requests: Vec<Entity>,
    pub replicated: Vec<(Entity, u32)>,
    pub mutate_tick_received: Vec<u32>,
    pub mismatch_seen: u32,
}

fn ut(t: &Option<Res<ServerUpdateTick>>) -> Option<u32> {
    t.as_ref().map(|t| t.get())
}

fn probe_events(
    mut p: ResMut<Probe>,
    tick: Option<Res<ServerUpdateTick>>,
    mut e1: EventReader<SeOrd>,
    mut e2: EventReader<SeUnord>,
    mut e3: EventReader<SeUnrel>,
    mut e4: EventReader<SeInd>,
    mut c1: EventReader<FromClient<CeOrd>>,
    mut c2: EventReader<FromClient<CeMap>>,
    mut c3: EventReader<FromClient<CeUnord>>,
    mut c4: EventReader<FromClient<CeUnrel>>,
    mut dr: EventReader<DisconnectRequest>,
) {
    let u = ut(&tick);
    for e in e1.read() {
        p.sev.push(SEvObs { kind: SEv::Ord, seq: e.seq, ent: e.ent, targets: vec![], update_tick: u });
    }
    for e in e2.read() {
        p.sev.push(SEvObs { kind: SEv::Unord, seq: e.seq, ent: None, targets: vec![], update_tick: u });
    }
    for e in e3.read() {
        p.sev.push(SEvObs { kind: SEv::Unrel, seq: e.seq, ent: None, targets: vec![], update_tick: u });
    }
    for e in e4.read() {
        p.sev.push(SEvObs { kind: SEv::Ind, seq: e.seq, ent: None, targets: vec![], update_tick: u });
    }
    for e in c1.read() {
        p.cev.push(CEvObs { kind: CEv::Ord, seq: e.event.seq, client: e.client, ent: None, targets: vec![] });
    }
    for e in c2.read() {
        p.cev.push(CEvObs {
            kind: CEv::Map,
            seq: e.event.seq,
            client: e.client,
            ent: Some(e.event.ent),
            targets: vec![],
        });
    }
    for e in c3.read() {
        p.cev.push(CEvObs { kind: CEv::Unord, seq: e.event.seq, client: e.client, ent: None, targets: vec![] });
    }
    for e in c4.read() {
        p.cev.push(CEvObs { kind: CEv::Unrel, seq: e.event.seq, client: e.client, ent: None, targets: vec![] });
    }
    for e in dr.read() {
        p.disconnect_requests.push(e.client);
    }
}

fn probe_client_events(
    mut p: ResMut<Probe>,
    mut r: EventReader<EntityReplicated>,
    mut m: EventReader<MutateTickReceived>,
) {
    for e in r.read() {
        p.replicated.push((e.entity, e.tick.get()));
    }
    for e in m.read() {
        p.mutate_tick_received.push(e.tick.get());
    }
}

fn observe_st(trigger: Trigger<StTrig>, mut p: ResMut<Probe>, tick: Option<Res<ServerUpdateTick>>) {
    let target = trigger.target();
    // A trigger with several targets runs the observer once per target; record it once per
    // (seq, target) and let the oracle group by seq.
    p.sev.push(SEvObs {
        kind: SEv::Trig,
        seq: trigger.event().seq,
        ent: (target != Entity::PLACEHOLDER).then_some(target),
        targets: vec![target],
        update_tick: ut(&tick),
    });
}

fn observe_ct(trigger: Trigger<FromClient<CtTrig>>, mut p: ResMut<Probe>) {
    let target = trigger.target();
    p.cev.push(CEvObs {
        kind: CEv::Trig,
        seq: trigger.event().event.seq,
        client: trigger.event().client,
        ent: (target != Entity::PLACEHOLDER).then_some(target),
        targets: vec![target],
    });
}

fn observe_mismatch(_t: Trigger<ProtocolMismatch>, mut p: ResMut<Probe>) {
    p.mismatch_seen += 1;
}

fn probe_noop() {}

fn probe_tick(mut p: ResMut<Probe>) {
    p.ticked = true;
}

// ---------------------------------------------------------------------------------------------
// App construction

#[derive(Clone, Copy, PartialEq, Eq, Debug, Serialize, Deserialize)]
pub enum Role {
    /// Default plugin group: server and client parts.
    Full,
    /// No `ClientPlugin` / `ClientEventPlugin` (dedicated server).
    ServerOnly,
    /// No `ServerPlugin` / `ServerEventPlugin`.
    ClientOnly,
}

#[derive(Clone, Debug, Serialize, Deserialize, PartialEq)]
pub struct AppCfg {
    /// 0 All, 1 Blacklist, 2 Whitelist
    pub vis: u8,
    /// 0 Manual, 1 EveryFrame, 2 MaxTickRate(rate)
    pub tick_policy: u8,
    pub rate: u16,
    /// 0 ProtocolCheck, 1 None, 2 Custom
    pub auth: u8,
    pub timeout_ms: u64,
    pub period: u32,
    pub track: bool,
    pub sync_related: bool,
    /// Registration-order variant (C14): 0 = the standard pool.
    pub proto_variant: u32,
    /// Register the history marker `Pred` (custom write / remove functions for `A`, old mutations wanted).
    #[serde(default)]
    pub history: bool,
}

impl Default for AppCfg {
    fn default() -> Self {
        Self {
            vis: 0,
            tick_policy: 0,
            rate: 30,
            auth: 1,
            timeout_ms: 10_000,
            period: 2,
            track: false,
            sync_related: false,
            proto_variant: 0,
            history: false,
        }
    }
}

pub fn vis_policy(v: u8) -> VisibilityPolicy {
    match v {
        1 => VisibilityPolicy::Blacklist,
        2 => VisibilityPolicy::Whitelist,
        _ => VisibilityPolicy::All,
    }
}

pub fn auth_method(a: u8) -> AuthMethod {
    match a {
        0 => AuthMethod::ProtocolCheck,
        2 => AuthMethod::Custom,
        _ => AuthMethod::None,
    }
}

/// fns id -> kind, computed from the public rule table of a built app.
#[derive(Resource, Clone, Default, Debug)]
pub struct FnsMap(pub BTreeMap<usize, Kind>);

/// Channel ids as created by the registration order below.
#[derive(Clone, Copy, Debug)]
pub struct Chans {
    pub proto: bool,
}

impl Chans {
    pub const UPDATES: usize = 0;
    pub const MUTATIONS: usize = 1;
    pub const ACKS: usize = 0;
    pub fn mismatch(&self) -> Option<usize> {
        self.proto.then_some(2)
    }
    pub fn proto_hash(&self) -> Option<usize> {
        self.proto.then_some(1)
    }
    pub fn sev(&self, k: SEv) -> usize {
        2 + self.proto as usize + k as usize
    }
    pub fn cev(&self, k: CEv) -> usize {
        1 + self.proto as usize + k as usize
    }
    pub fn sev_of(&self, ch: usize) -> Option<SEv> {
        let base = 2 + self.proto as usize;
        ch.checked_sub(base).and_then(|i| ALL_SEV.get(i).copied())
    }
    pub fn cev_of(&self, ch: usize) -> Option<CEv> {
        let base = 1 + self.proto as usize;
        ch.checked_sub(base).and_then(|i| ALL_CEV.get(i).copied())
    }
    pub fn n_server(&self) -> usize {
        2 + self.proto as usize + ALL_SEV.len()
    }
    pub fn n_client(&self) -> usize {
        1 + self.proto as usize + ALL_CEV.len()
    }
    /// Channel kind of a server->client channel: 0 ordered, 1 unordered, 2 unreliable.
    pub fn server_kind(&self, ch: usize) -> u8 {
        if ch == Self::UPDATES {
            return 0;
        }
        if ch == Self::MUTATIONS {
            return 2;
        }
        if Some(ch) == self.mismatch() {
            return 2;
        }
        match self.sev_of(ch) {
            Some(SEv::Unord) => 1,
            Some(SEv::Unrel) => 2,
            _ => 0,
        }
    }
    /// Channel kind of a client->server channel: 0 ordered, 1 unordered, 2 unreliable.
    pub fn client_kind(&self, ch: usize) -> u8 {
        match self.cev_of(ch) {
            Some(CEv::Unord) => 1,
            Some(CEv::Unrel) => 2,
            _ => 0,
        }
    }
}

pub fn register_pool(app: &mut App, cfg: &AppCfg, role: Role) {
    // Protocol variants of a client build that differs from the server's (C07 / C14): 1 one more trailing
    // registration, 2 another event marked independent (same number of marks at the same position),
    // 3 another priority for one rule, 4 two rules in another order. Channel ids of the pool stay the same.
    let pv = cfg.proto_variant;
    if pv == 4 {
        app.replicate::<B>().replicate::<A>();
    } else if pv == 3 {
        app.replicate::<A>().replicate_with_priority(2, RuleFns::<B>::default());
    } else {
        app.replicate::<A>().replicate::<B>();
    }
    app.replicate::<S>()
        .replicate::<Imm>()
        .replicate_once::<O>()
        .replicate_periodic::<P>(cfg.period.max(1))
        .replicate::<Big>()
        .replicate::<X>()
        .replicate::<Y>()
        .replicate_bundle::<(X, Y)>()
        .replicate::<Ref>()
        .replicate::<LinkTo>();
    // Server-side API: its observers need the server plugin's resources.
    if cfg.sync_related && role != Role::ClientOnly {
        app.sync_related_entities::<LinkTo>();
    }
    if cfg.track {
        app.track_mutate_messages();
    }
    if cfg.history {
        use bevy_replicon::shared::replication::command_markers::MarkerConfig;
        app.register_marker_with::<Pred>(MarkerConfig { need_history: true, ..Default::default() })
            .set_marker_fns::<Pred, A>(write_hist_a, remove_hist_a);
    }
    app.add_mapped_server_event::<SeOrd>(Channel::Ordered)
        .add_server_event::<SeUnord>(Channel::Unordered)
        .add_server_event::<SeUnrel>(Channel::Unreliable)
        .add_server_event::<SeInd>(Channel::Ordered);
    if pv == 2 {
        app.make_event_independent::<SeUnord>();
    } else {
        app.make_event_independent::<SeInd>();
    }
    app.add_server_trigger::<StTrig>(Channel::Ordered)
        .add_client_event::<CeOrd>(Channel::Ordered)
        .add_mapped_client_event::<CeMap>(Channel::Ordered)
        .add_client_trigger::<CtTrig>(Channel::Ordered)
        .add_client_event::<CeUnord>(Channel::Unordered)
        .add_client_event::<CeUnrel>(Channel::Unreliable);
    if pv == 1 {
        app.add_client_event::<ExtraEv>(Channel::Ordered);
    }
}

pub fn build_app(cfg: &AppCfg, role: Role) -> App {
    let mut app = App::new();
    let mut group = RepliconPlugins
        .build()
        .set(RepliconSharedPlugin { auth_method: auth_method(cfg.auth) })
        .set(ServerPlugin {
            tick_policy: match cfg.tick_policy {
                1 => TickPolicy::EveryFrame,
                2 => TickPolicy::MaxTickRate(cfg.rate.max(1)),
                _ => TickPolicy::Manual,
            },
            visibility_policy: vis_policy(cfg.vis),
            mutations_timeout: Duration::from_millis(cfg.timeout_ms.max(1)),
        });
    match role {
        Role::Full => {}
        Role::ServerOnly => {
            group = group.disable::<ClientPlugin>().disable::<ClientEventPlugin>();
        }
        Role::ClientOnly => {
            group = group.disable::<ServerPlugin>().disable::<ServerEventPlugin>();
        }
    }
    app.add_plugins((MinimalPlugins, group));
    app.insert_resource(TimeUpdateStrategy::ManualDuration(Duration::from_millis(16)));
    register_pool(&mut app, cfg, role);
    app.init_resource::<Probe>();
    app.init_resource::<PendingEmits>();
    app.add_systems(Update, (emit_pending, probe_events).chain());
    if role != Role::ServerOnly {
        app.add_systems(Update, probe_client_events);
    }
    app.add_observer(observe_st).add_observer(observe_ct);
    if cfg.auth == 0 {
        app.add_observer(observe_mismatch);
    }
    if role != Role::ClientOnly {
        // Same shape as the library's own registration: `server_running` is a set-level condition, so
        // `resource_changed` is not evaluated (and keeps its stale reference tick) while stopped.
        app.add_systems(
            PostUpdate,
            (probe_noop, probe_tick.run_if(resource_changed::<ServerTick>))
                .chain()
                .after(ServerSet::Send)
                .run_if(server_running),
        );
    }
    app.finish();
    app.cleanup();

    let mut map = BTreeMap::new();
    {
        let world = app.world();
        let rules = world.resource::<ReplicationRules>();
        let ids: Vec<(Option<bevy::ecs::component::ComponentId>, Kind)> = vec![
            (world.component_id::<A>(), Kind::A),
            (world.component_id::<B>(), Kind::B),
            (world.component_id::<S>(), Kind::S),
            (world.component_id::<Imm>(), Kind::Imm),
            (world.component_id::<O>(), Kind::O),
            (world.component_id::<P>(), Kind::P),
            (world.component_id::<Big>(), Kind::Big),
            (world.component_id::<X>(), Kind::X),
            (world.component_id::<Y>(), Kind::Y),
            (world.component_id::<Ref>(), Kind::Ref),
            (world.component_id::<LinkTo>(), Kind::Link),
        ];
        for rule in rules.iter() {
            for c in &rule.components {
                if let Some((_, k)) = ids.iter().find(|(id, _)| *id == Some(c.id)) {
                    let raw: usize = fns_raw(c.fns_id);
                    map.insert(raw, *k);
                }
            }
        }
    }
    app.insert_resource(FnsMap(map));
    app
}

fn fns_raw(id: bevy_replicon::shared::replication::replication_registry::FnsId) -> usize {
    // `FnsId` serialises as a plain varint usize; that is also how it appears on the wire.
    let mut buf = [0u8; 16];
    let bytes = bevy_replicon::postcard::to_slice(&id, &mut buf).expect("fns id serialises");
    bevy_replicon::postcard::from_bytes::<usize>(bytes).expect("fns id is a usize")
}

pub fn set_dt(app: &mut App, dt_ms: u32) {
    app.insert_resource(TimeUpdateStrategy::ManualDuration(Duration::from_millis(dt_ms as u64)));
}
