//! The shared replication simulation as an `Engine`.

use serde_json::json;

use crate::engine::{Directed, Engine, Outcome};
use crate::pool::Role;
use crate::sim::Sim;
use crate::steps::*;
use crate::{generate, scenarios};

pub struct Repl;

impl Engine for Repl {
    type T = Trace;
    const FAMILY: &'static str = "replication";

    fn generate(prop: &str, seed: u64) -> Trace {
        generate::generate(seed, prop)
    }

    fn run(t: &Trace, verbose: bool, no_taint: bool) -> Outcome {
        let s = Sim::run_opts(t, verbose, no_taint);
        let mut stats = s.stats;
        if !s.decode_errors.is_empty() {
            *stats.probes.entry("undecodable_message".into()).or_insert(0) += s.decode_errors.len() as u64;
        }
        // A message the independent decoder cannot parse is a harness error only if nothing else noticed
        // a problem: a library change that corrupts the wire format is caught by the behavioural oracles.
        let harness_error = s.harness_error.or_else(|| if s.violations.is_empty() { s.decode_errors.first().cloned() } else { None });
        Outcome { violations: s.violations, stats, harness_error, log: s.trace_log }
    }

    fn len(t: &Trace) -> usize {
        t.steps.len()
    }

    fn without(t: &Trace, from: usize, to: usize) -> Trace {
        let mut t = t.clone();
        t.steps.drain(from..to.min(t.steps.len()));
        t
    }

    fn cut_after(t: &Trace, step: usize) -> Trace {
        let mut c = t.clone();
        let heal = matches!(t.steps.get(step), Some(Step::Heal));
        c.steps.truncate((step + 1).min(t.steps.len()));
        if heal && !matches!(c.steps.last(), Some(Step::Heal)) {
            c.steps.push(Step::Heal);
        }
        c
    }

    fn simplify(best: &Trace) -> Vec<Trace> {
        let mut cands: Vec<Trace> = vec![];
        let p = &best.profile;
        let mut with = |f: &dyn Fn(&mut Trace)| {
            let mut t = best.clone();
            f(&mut t);
            cands.push(t);
        };
        if p.clients > 1 {
            with(&|t| t.profile.clients -= 1);
        }
        if p.app.track {
            with(&|t| t.profile.app.track = false);
        }
        if p.app.sync_related {
            with(&|t| t.profile.app.sync_related = false);
        }
        if p.max_size != [1200; 3] {
            with(&|t| t.profile.max_size = [1200; 3]);
        }
        if p.app.timeout_ms != 10_000 {
            with(&|t| t.profile.app.timeout_ms = 10_000);
        }
        if p.server_role != Role::ServerOnly {
            with(&|t| t.profile.server_role = Role::ServerOnly);
        }
        if p.client_role != Role::ClientOnly {
            with(&|t| t.profile.client_role = Role::ClientOnly);
        }
        if p.app.tick_policy != 0 {
            with(&|t| t.profile.app.tick_policy = 0);
        }
        if p.app.auth != 1 {
            with(&|t| t.profile.app.auth = 1);
        }
        if p.app.vis != 0 {
            with(&|t| t.profile.app.vis = 0);
        }
        let mut t = best.clone();
        let mut any = false;
        for s in t.steps.iter_mut() {
            match s {
                Step::ServerFrame { dt_ms, .. } | Step::ClientFrame { dt_ms, .. } if *dt_ms != 16 => {
                    *dt_ms = 16;
                    any = true;
                }
                Step::Deliver { pick, .. } | Step::Drop { pick, .. } if *pick != 0 => {
                    *pick = 0;
                    any = true;
                }
                _ => {}
            }
        }
        if any {
            cands.push(t);
        }
        cands
    }

    fn directed(prop: &str) -> Vec<Directed<Trace>> {
        scenarios::all()
            .into_iter()
            .filter(|s| s.props.contains(&prop))
            .map(|s| Directed { id: s.id, trace: s.trace, symptom_oracles: s.symptom_oracles })
            .collect()
    }

    fn expected_probes() -> &'static [&'static str] {
        &[
            "hold",
            "hold_update_channel",
            "drop_mutate",
            "reorder",
            "disconnect",
            "reconnect",
            "server_restart",
            "mutate_buffered",
            "two_mutates_buffered",
            "two_updates_one_frame",
            "disconnect_with_buffered_mutations",
            "vis_toggled_again",
            "message_split_2plus",
            "event_overtook_update",
            "two_struct_ops_one_window_same_slot",
            "ack_after_timeout",
        ]
    }

    fn rule() -> &'static str {
        "each evaluation is one simulated run (seeded profile + trace of steps executed against the real server and client apps). distinct_nontrivial counts distinct abstract state signatures (per node: last op kind, last fault kind, server running, per client connection/authorisation state, update-message lag bucket, buffered-mutate bucket, in-flight buckets per channel class, visibility policy) observed after at least one fault had fired and at least one update message had been applied by a client"
    }

    fn components() -> serde_json::Value {
        json!({
            "real_code": ["bevy_replicon (server, client, events, visibility, related entities, protocol)", "Bevy ECS/app/time", "postcard", "petgraph"],
            "simulated": ["messaging backend (Net queues implementing the three channel contracts)", "clock (TimeUpdateStrategy::ManualDuration)", "connection life-cycle", "game logic (generated workload)"],
        })
    }
}
