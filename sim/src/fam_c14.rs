//! C14: registration sequences -> protocol hash -> simulated default handshake between two real apps.

use std::panic::{AssertUnwindSafe, catch_unwind};

use bevy::prelude::*;
use bevy_replicon::prelude::*;
use bytes::Bytes;
use serde::{Deserialize, Serialize};
use serde_json::json;

use crate::engine::{Directed, Engine, Outcome};
use crate::pool::{A, B, Imm, S, X, Y};
use crate::rng::Rng;
use crate::sim::{Stats, Violation};

#[derive(Serialize, Deserialize, Clone, Copy, Debug, PartialEq, Eq)]
pub enum Reg {
    /// `replicate::<C>()` (priority 1)
    Rule(u8),
    /// `replicate_with_priority(prio, RuleFns::<C>::default())`
    RulePrio(u8, u8),
    /// `replicate_bundle::<(X, Y)>()` / `(A, B)`
    Bundle(u8),
    SEvent(u8),
    STrigger(u8),
    CEvent(u8),
    CTrigger(u8),
    IndepEvent(u8),
    IndepTrigger(u8),
}

#[derive(Event, Serialize, Deserialize, Clone, Copy, Debug)]
pub struct E0(u32);
#[derive(Event, Serialize, Deserialize, Clone, Copy, Debug)]
pub struct E1(u32);
#[derive(Event, Serialize, Deserialize, Clone, Copy, Debug)]
pub struct E2(u32);

#[derive(Serialize, Deserialize, Clone, Debug, PartialEq)]
pub struct T14 {
    pub server: Vec<Reg>,
    pub client: Vec<Reg>,
    /// Server frames the hash message is held back.
    pub delay: u8,
    /// The client's first frame happens before (false) or after (true) extra server frames.
    pub late_client: bool,
    /// Sessions of the same two apps: after the first handshake the connection is closed on both ends,
    /// each app runs `reconnect - 1` more frames, and the handshake is repeated on a new connection.
    #[serde(default)]
    pub reconnect: u8,
    /// Unrelated local state registered before the shared registrations (bits 0-1: server app, bits 2-3:
    /// client app; 1 = a local resource, 2 = a local component, 3 = both): not part of the protocol.
    #[serde(default)]
    pub local_state: u8,
}

#[derive(Resource, Default)]
struct LocalRes(#[allow(dead_code)] u32);
#[derive(Component)]
struct LocalComp;
#[derive(Component)]
struct LocalComp2;

fn canon(seq: &[Reg]) -> Vec<Reg> {
    seq.iter().map(|r| if let Reg::Rule(c) = r { Reg::RulePrio(*c, 1) } else { *r }).collect()
}

/// A sequence is applicable if it never registers the same thing twice and independence marks
/// follow their registration (anything else panics at registration by design).
fn valid(seq: &[Reg]) -> bool {
    let mut seen: Vec<Reg> = vec![];
    for r in seq {
        let key = match r {
            Reg::Rule(c) | Reg::RulePrio(c, _) => Reg::Rule(*c),
            x => *x,
        };
        if seen.contains(&key) {
            return false;
        }
        match r {
            // (The same type may be an event and a trigger at once: the library wraps triggers in
            // its own event type.)
            Reg::IndepEvent(i) if !seen.contains(&Reg::SEvent(*i)) => return false,
            Reg::IndepTrigger(i) if !seen.contains(&Reg::STrigger(*i)) => return false,
            _ => {}
        }
        seen.push(key);
    }
    true
}

macro_rules! by_comp {
    ($c:expr, $f:ident, $app:expr $(, $arg:expr)*) => {
        match $c % 6 {
            0 => { $app.$f::<A>($($arg),*); }
            1 => { $app.$f::<B>($($arg),*); }
            2 => { $app.$f::<S>($($arg),*); }
            3 => { $app.$f::<Imm>($($arg),*); }
            4 => { $app.$f::<X>($($arg),*); }
            _ => { $app.$f::<Y>($($arg),*); }
        }
    };
}

macro_rules! by_event {
    ($i:expr, $f:ident, $app:expr $(, $arg:expr)*) => {
        match $i % 3 {
            0 => { $app.$f::<E0>($($arg),*); }
            1 => { $app.$f::<E1>($($arg),*); }
            _ => { $app.$f::<E2>($($arg),*); }
        }
    };
}

fn apply(app: &mut App, seq: &[Reg]) {
    for r in seq {
        match *r {
            Reg::Rule(c) => by_comp!(c, replicate, app),
            Reg::RulePrio(c, p) => match c % 6 {
                0 => {
                    app.replicate_with_priority(p as usize, RuleFns::<A>::default());
                }
                1 => {
                    app.replicate_with_priority(p as usize, RuleFns::<B>::default());
                }
                2 => {
                    app.replicate_with_priority(p as usize, RuleFns::<S>::default());
                }
                3 => {
                    app.replicate_with_priority(p as usize, RuleFns::<Imm>::default());
                }
                4 => {
                    app.replicate_with_priority(p as usize, RuleFns::<X>::default());
                }
                _ => {
                    app.replicate_with_priority(p as usize, RuleFns::<Y>::default());
                }
            },
            Reg::Bundle(b) => {
                if b % 2 == 0 {
                    app.replicate_bundle::<(X, Y)>();
                } else {
                    app.replicate_bundle::<(A, B)>();
                }
            }
            Reg::SEvent(i) => by_event!(i, add_server_event, app, Channel::Ordered),
            Reg::STrigger(i) => by_event!(i, add_server_trigger, app, Channel::Ordered),
            Reg::CEvent(i) => by_event!(i, add_client_event, app, Channel::Ordered),
            Reg::CTrigger(i) => by_event!(i, add_client_trigger, app, Channel::Ordered),
            Reg::IndepEvent(i) => by_event!(i, make_event_independent, app),
            Reg::IndepTrigger(i) => by_event!(i, make_trigger_independent, app),
        }
    }
}

#[derive(Resource, Default)]
struct Requests(Vec<Entity>);

fn read_requests(mut r: ResMut<Requests>, mut ev: EventReader<DisconnectRequest>) {
    for e in ev.read() {
        r.0.push(e.client);
    }
}

pub fn build(seq: &[Reg]) -> App {
    build_with(seq, 0)
}

pub fn build_with(seq: &[Reg], local: u8) -> App {
    let mut app = App::new();
    app.add_plugins((
        MinimalPlugins,
        RepliconPlugins.set(ServerPlugin { tick_policy: TickPolicy::EveryFrame, ..Default::default() }),
    ));
    if local & 1 != 0 {
        app.init_resource::<LocalRes>();
    }
    if local & 2 != 0 {
        app.world_mut().register_component::<LocalComp>();
        app.world_mut().register_component::<LocalComp2>();
    }
    apply(&mut app, seq);
    app.init_resource::<Requests>().add_systems(Update, read_requests);
    app.finish();
    app.cleanup();
    app
}

pub fn hash_of(seq: &[Reg]) -> String {
    let app = build(seq);
    format!("{:?}", app.world().resource::<ProtocolHash>())
}

pub const CANON: [Reg; 7] = [Reg::Rule(0), Reg::RulePrio(1, 3), Reg::Bundle(0), Reg::SEvent(0), Reg::IndepEvent(0), Reg::CTrigger(1), Reg::STrigger(2)];

pub struct C14;

fn upd(app: &mut App) -> Result<(), String> {
    catch_unwind(AssertUnwindSafe(|| app.update())).map_err(|e| {
        e.downcast_ref::<String>().cloned().or_else(|| e.downcast_ref::<&str>().map(|s| s.to_string())).unwrap_or("panic".into())
    })
}

impl C14 {
    fn exec(t: &T14, verbose: bool) -> Outcome {
        let mut stats = Stats::default();
        let mut violations: Vec<Violation> = vec![];
        let mut log = vec![];
        if verbose {
            log.push(format!("server registrations: {:?}", t.server));
            log.push(format!("client registrations: {:?}", t.client));
            log.push(format!("hash message held {} server frame(s), late client frame: {}", t.delay, t.late_client));
        }
        if !valid(&t.server) || !valid(&t.client) {
            // Not an applicable pair (shrinking may produce such sequences): nothing to check.
            return Outcome { violations, stats, harness_error: None, log };
        }
        let mut v = |oracle: &str, detail: String| {
            violations.push(Violation { prop: "C14".into(), oracle: oracle.into(), detail, step: 0 });
        };
        let built = catch_unwind(AssertUnwindSafe(|| (build_with(&t.server, t.local_state & 3), build_with(&t.client, (t.local_state >> 2) & 3))));
        let Ok((mut server, mut client)) = built else {
            v("panic", "building the apps panicked".into());
            return Outcome { violations, stats, harness_error: None, log };
        };
        let equal = canon(&t.server) == canon(&t.client);
        let hs = format!("{:?}", server.world().resource::<ProtocolHash>());
        let hc = format!("{:?}", client.world().resource::<ProtocolHash>());
        if equal && hs != hc {
            v("equal_sequences_different_hash", format!("identical registration sequences hash to {hs} and {hc}"));
        }
        if !equal && hs == hc {
            v("different_sequences_same_hash", format!("sequences {:?} and {:?} both hash to {hs}", t.server, t.client));
        }
        if hash_of(&t.server) != hs {
            v("hash_not_repeatable", "the same sequence hashed differently in a second app".into());
        }
        // Handshake(s).
        server.world_mut().resource_mut::<RepliconServer>().set_running(true);
        for session in 0..=(t.reconnect > 0) as usize {
            let tag = if session == 0 { String::new() } else { format!("[second session of the same apps, {} frame(s) after the first was closed] ", t.reconnect) };
            let ce = server.world_mut().spawn(ConnectedClient { max_size: 1200 }).id();
            client.world_mut().resource_mut::<RepliconClient>().set_status(RepliconClientStatus::Connected);
            let mut c2s: Vec<(usize, Bytes)> = vec![];
            let mut mismatch_sent = 0;
            let mut other_sent = 0;
            let mut step = |server: &mut App, client: &mut App, c2s: &mut Vec<(usize, Bytes)>, deliver: bool, stats: &mut Stats| -> Result<(), String> {
                upd(client)?;
                stats.client_frames += 1;
                c2s.extend(client.world_mut().resource_mut::<RepliconClient>().drain_sent());
                if deliver {
                    for (ch, b) in c2s.drain(..) {
                        server.world_mut().resource_mut::<RepliconServer>().insert_received(ce, ch, b);
                    }
                } else if !c2s.is_empty() {
                    stats.fault("hold");
                }
                upd(server)?;
                stats.server_frames += 1;
                Ok(())
            };
            let mut res = Ok(());
            if t.late_client {
                res = upd(&mut server);
                stats.fault("client_stall");
            }
            for i in 0..(t.delay as usize + 4) {
                if res.is_err() {
                    break;
                }
                res = step(&mut server, &mut client, &mut c2s, i >= t.delay as usize, &mut stats);
                let sent: Vec<(Entity, usize, Bytes)> = server.world_mut().resource_mut::<RepliconServer>().drain_sent().collect();
                for (e, ch, _) in sent {
                    // ProtocolMismatch is the first server event channel (registered by the shared plugin).
                    if e == ce && ch == 2 {
                        mismatch_sent += 1;
                    } else {
                        other_sent += 1;
                    }
                }
            }
            if let Err(p) = res {
                v("panic", format!("{tag}handshake panicked: {p}"));
                return Outcome { violations, stats, harness_error: None, log };
            }
            let authorized = server.world().get_entity(ce).map(|e| e.contains::<AuthorizedClient>()).unwrap_or(false);
            let requests = server.world().resource::<Requests>().0.clone();
            if equal {
                if !authorized {
                    v("matching_client_not_authorized", format!("{tag}hashes match ({hs}) but the client was not authorized"));
                }
                if mismatch_sent > 0 || requests.contains(&ce) {
                    v("matching_client_rejected", format!("{tag}hashes match but {mismatch_sent} mismatch message(s) were sent and a disconnect was requested: {}", requests.contains(&ce)));
                }
            } else {
                if authorized {
                    v("mismatching_client_authorized", format!("{tag}server {hs} authorized a client with {hc}"));
                }
                if mismatch_sent == 0 {
                    v("mismatch_not_notified", format!("{tag}hashes differ but no ProtocolMismatch was sent to the client"));
                }
                if !requests.contains(&ce) {
                    v("disconnect_not_requested", format!("{tag}hashes differ but no DisconnectRequest was emitted for the client"));
                }
                if other_sent > 0 {
                    v("data_to_mismatching_client", format!("{tag}{other_sent} other message(s) were sent to the client whose protocol differs"));
                }
            }
            if session == 0 && t.reconnect > 0 {
                // Close both ends the way a backend does, then let both apps run.
                stats.fault("reconnect");
                server.world_mut().despawn(ce);
                client.world_mut().resource_mut::<RepliconClient>().set_status(RepliconClientStatus::Disconnected);
                let _: Vec<_> = client.world_mut().resource_mut::<RepliconClient>().drain_sent().collect();
                for _ in 0..t.reconnect.min(3) {
                    if let Err(p) = upd(&mut server).and_then(|_| upd(&mut client)) {
                        v("panic", format!("frame between two sessions panicked: {p}"));
                        return Outcome { violations, stats, harness_error: None, log };
                    }
                }
                let _: Vec<_> = server.world_mut().resource_mut::<RepliconServer>().drain_sent().collect();
            }
        }
        let sig = (equal as u64) | ((t.delay as u64) << 1) | ((t.late_client as u64) << 4) | ((t.server.len() as u64) << 5) | (edit_kind(&t.server, &t.client) << 10) | ((t.reconnect.min(3) as u64) << 13);
        stats.sigs.insert(sig);
        stats.nontrivial_sigs.insert(sig);
        stats.progress_runs = 1;
        Outcome { violations, stats, harness_error: None, log }
    }
}

fn edit_kind(a: &[Reg], b: &[Reg]) -> u64 {
    if a == b {
        0
    } else if a.len() < b.len() {
        1
    } else if a.len() > b.len() {
        2
    } else {
        let mut sa = a.to_vec();
        let mut sb = b.to_vec();
        sa.sort_by_key(|r| format!("{r:?}"));
        sb.sort_by_key(|r| format!("{r:?}"));
        if sa == sb { 3 } else { 4 }
    }
}

fn random_reg(r: &mut Rng) -> Reg {
    match r.below(9) {
        0 | 1 => Reg::Rule(r.below(6) as u8),
        2 => Reg::RulePrio(r.below(6) as u8, r.pick(&[0u8, 1, 2, 5])),
        3 => Reg::Bundle(r.below(2) as u8),
        4 => Reg::SEvent(r.below(3) as u8),
        5 => Reg::STrigger(r.below(3) as u8),
        6 => Reg::CEvent(r.below(3) as u8),
        7 => Reg::CTrigger(r.below(3) as u8),
        _ => {
            if r.chance(50) {
                Reg::IndepEvent(r.below(3) as u8)
            } else {
                Reg::IndepTrigger(r.below(3) as u8)
            }
        }
    }
}

fn random_seq(r: &mut Rng) -> Vec<Reg> {
    let n = r.range(0, 10);
    let mut seq: Vec<Reg> = vec![];
    if r.chance(25) {
        // One type as server event and server trigger, one of them independent.
        let i = r.below(3) as u8;
        seq.push(Reg::SEvent(i));
        seq.push(Reg::STrigger(i));
        seq.push(if r.chance(50) { Reg::IndepEvent(i) } else { Reg::IndepTrigger(i) });
        if r.chance(50) {
            seq.swap(0, 1);
        }
    }
    let mut guard = 0;
    while seq.len() < n && guard < 200 {
        guard += 1;
        let mut cand = seq.clone();
        cand.push(random_reg(r));
        if valid(&cand) {
            seq = cand;
        }
    }
    seq
}

fn edit(r: &mut Rng, seq: &[Reg]) -> Vec<Reg> {
    for _ in 0..50 {
        let mut s = seq.to_vec();
        match r.below(6) {
            0 if s.len() >= 2 => {
                let i = r.below(s.len() - 1);
                s.swap(i, i + 1);
            }
            1 => {
                let i = r.below(s.len() + 1);
                s.insert(i, random_reg(r));
            }
            2 if !s.is_empty() => {
                let i = r.below(s.len());
                s.remove(i);
            }
            3 if !s.is_empty() => {
                // change of kind
                let i = r.below(s.len());
                s[i] = match s[i] {
                    Reg::SEvent(x) => Reg::STrigger(x),
                    Reg::STrigger(x) => Reg::SEvent(x),
                    Reg::CEvent(x) => Reg::CTrigger(x),
                    Reg::CTrigger(x) => Reg::CEvent(x),
                    Reg::Rule(c) => Reg::RulePrio(c, 2),
                    Reg::RulePrio(c, _) => Reg::Rule((c + 1) % 6),
                    Reg::Bundle(b) => Reg::Bundle(1 - b % 2),
                    Reg::IndepEvent(x) => Reg::IndepTrigger(x),
                    Reg::IndepTrigger(x) => Reg::IndepEvent(x),
                };
            }
            4 if !s.is_empty() => {
                // priority
                let i = r.below(s.len());
                if let Reg::Rule(c) | Reg::RulePrio(c, _) = s[i] {
                    let p = r.pick(&[0u8, 2, 3, 7]);
                    s[i] = Reg::RulePrio(c, p);
                }
            }
            _ if !s.is_empty() => {
                // type
                let i = r.below(s.len());
                s[i] = match s[i] {
                    Reg::SEvent(x) => Reg::SEvent((x + 1) % 3),
                    Reg::STrigger(x) => Reg::STrigger((x + 1) % 3),
                    Reg::CEvent(x) => Reg::CEvent((x + 1) % 3),
                    Reg::CTrigger(x) => Reg::CTrigger((x + 1) % 3),
                    Reg::Rule(c) => Reg::Rule((c + 1) % 6),
                    Reg::RulePrio(c, p) => Reg::RulePrio((c + 1) % 6, p),
                    Reg::IndepEvent(x) => Reg::IndepEvent((x + 1) % 3),
                    Reg::IndepTrigger(x) => Reg::IndepTrigger((x + 1) % 3),
                    x => x,
                };
            }
            _ => {}
        }
        if valid(&s) && canon(&s) != canon(seq) {
            return s;
        }
    }
    seq.to_vec()
}

impl Engine for C14 {
    type T = T14;
    const FAMILY: &'static str = "c14";

    fn generate(_prop: &str, seed: u64) -> T14 {
        let mut r = Rng::new(seed);
        let server = random_seq(&mut r);
        let client = if r.chance(35) { server.clone() } else { edit(&mut r, &server) };
        let (server, client) = if r.chance(50) { (server, client) } else { (client, server) };
        T14 { server, client, delay: r.weighted(&[5, 3, 1, 1]) as u8, late_client: r.chance(20), reconnect: r.weighted(&[6, 2, 1, 1]) as u8, local_state: if r.chance(30) { r.below(16) as u8 } else { 0 } }
    }

    fn run(t: &T14, verbose: bool, _no_taint: bool) -> Outcome {
        Self::exec(t, verbose)
    }

    fn len(t: &T14) -> usize {
        t.server.len() + t.client.len()
    }

    fn without(t: &T14, from: usize, to: usize) -> T14 {
        // Positions 0..server.len() are server items, the rest client items. Items removed on one side
        // are also removed on the other when it holds the same item at the same index, so that equal
        // pairs stay equal.
        let mut t = t.clone();
        let ns = t.server.len();
        for i in (from..to.min(ns + t.client.len())).rev() {
            if i < ns {
                let item = t.server.remove(i);
                if t.client.get(i) == Some(&item) {
                    t.client.remove(i);
                }
            } else if i - ns < t.client.len() {
                t.client.remove(i - ns);
            }
        }
        t
    }

    fn cut_after(t: &T14, _step: usize) -> T14 {
        t.clone()
    }

    fn simplify(t: &T14) -> Vec<T14> {
        let mut v = vec![];
        if t.delay > 0 {
            let mut c = t.clone();
            c.delay = 0;
            v.push(c);
        }
        if t.late_client {
            let mut c = t.clone();
            c.late_client = false;
            v.push(c);
        }
        if t.reconnect > 0 {
            let mut c = t.clone();
            c.reconnect -= 1;
            v.push(c);
        }
        if t.local_state != 0 {
            let mut c = t.clone();
            c.local_state = 0;
            v.push(c);
        }
        v
    }

    fn directed(_prop: &str) -> Vec<Directed<T14>> {
        let base = CANON.to_vec();
        let mut swapped = base.clone();
        swapped.swap(0, 1);
        let mut prio = base.clone();
        prio[1] = Reg::RulePrio(1, 4);
        let mut indep = base.clone();
        indep.remove(4);
        let both = vec![Reg::SEvent(0), Reg::STrigger(0), Reg::IndepEvent(0)];
        let both2 = vec![Reg::SEvent(0), Reg::STrigger(0), Reg::IndepTrigger(0)];
        let ind_a = vec![Reg::SEvent(0), Reg::SEvent(1), Reg::IndepEvent(0)];
        let ind_b = vec![Reg::SEvent(0), Reg::SEvent(1), Reg::IndepEvent(1)];
        let trg_a = vec![Reg::STrigger(0), Reg::STrigger(1), Reg::IndepTrigger(0)];
        let trg_b = vec![Reg::STrigger(0), Reg::STrigger(1), Reg::IndepTrigger(1)];
        vec![
            Directed { id: "local_state", trace: T14 { server: base.clone(), client: base.clone(), delay: 0, late_client: false, reconnect: 0, local_state: 0b1100 }, symptom_oracles: vec![] },
            Directed { id: "reconnect_equal", trace: T14 { server: base.clone(), client: base.clone(), delay: 0, late_client: false, reconnect: 1, local_state: 0 }, symptom_oracles: vec![] },
            Directed { id: "reconnect_different", trace: T14 { server: base.clone(), client: {
                let mut x = base.clone();
                x.swap(0, 1);
                x
            }, delay: 0, late_client: false, reconnect: 2, local_state: 0 }, symptom_oracles: vec![] },
            Directed { id: "independence_type", trace: T14 { server: ind_a, client: ind_b, delay: 0, late_client: false, reconnect: 0, local_state: 0 }, symptom_oracles: vec![] },
            Directed { id: "independence_trigger_type", trace: T14 { server: trg_a, client: trg_b, delay: 1, late_client: false, reconnect: 0, local_state: 0 }, symptom_oracles: vec![] },
            Directed { id: "independence_kind", trace: T14 { server: both, client: both2, delay: 0, late_client: false, reconnect: 0, local_state: 0 }, symptom_oracles: vec![] },
            Directed { id: "equal", trace: T14 { server: base.clone(), client: base.clone(), delay: 1, late_client: false, reconnect: 0, local_state: 0 }, symptom_oracles: vec![] },
            Directed { id: "order", trace: T14 { server: base.clone(), client: swapped, delay: 0, late_client: false, reconnect: 0, local_state: 0 }, symptom_oracles: vec![] },
            Directed { id: "priority", trace: T14 { server: base.clone(), client: prio, delay: 2, late_client: true, reconnect: 0, local_state: 0 }, symptom_oracles: vec![] },
            Directed { id: "independence", trace: T14 { server: indep, client: base, delay: 0, late_client: false, reconnect: 0, local_state: 0 }, symptom_oracles: vec![] },
        ]
    }

    fn rule() -> &'static str {
        "each evaluation builds a server app and a client app from two registration sequences (equal, or differing by one edit: swap, insert, delete, change of kind, priority or type; <= 10 registrations over 6 component types, 2 bundles and 3 event types) and simulates the default protocol-check handshake between them with the hash message held for 0-3 server frames; in 30% one or both apps carry unrelated local state (a resource, components) registered before the shared registrations; in 40% of the evaluations the connection is then closed on both ends and the handshake repeated by the same two apps 1-3 frames later. distinct_nontrivial counts distinct (equal?, delay, client stall, sequence length, edit class, reconnect gap) combinations"
    }

    fn components() -> serde_json::Value {
        json!({
            "real_code": ["ProtocolHasher / ProtocolHash", "rule and event registration", "server check_protocol observer, client send_protocol_hash", "client trigger / server trigger plumbing"],
            "simulated": ["transport between the two apps (delay of the hash message; ProtocolMismatch travels on an unreliable channel, so 'sent' is what is checked)"],
            "honest_note": "the hash itself is a pure function of the registration sequence; the simulation adds the multi-party outcome (authorised / notified / disconnect requested), not more power over the function than generation gives",
        })
    }
}
