//! Harness-side decoder: an independent re-implementation of the documented message formats.
//! It never touches the library's private state; it only reads relayed bytes.

use std::collections::BTreeMap;

use crate::pool::{Kind, MAGIC, TAG_LEN, Val};

pub type R<T> = Result<T, String>;

pub struct Cur<'a> {
    pub b: &'a [u8],
    pub pos: usize,
}

impl<'a> Cur<'a> {
    pub fn new(b: &'a [u8]) -> Self {
        Self { b, pos: 0 }
    }
    pub fn done(&self) -> bool {
        self.pos >= self.b.len()
    }
    pub fn left(&self) -> usize {
        self.b.len() - self.pos
    }
    pub fn u8(&mut self) -> R<u8> {
        let v = *self.b.get(self.pos).ok_or("eof")?;
        self.pos += 1;
        Ok(v)
    }
    pub fn varint(&mut self) -> R<u64> {
        let mut out: u64 = 0;
        for i in 0..10 {
            let byte = self.u8()?;
            out |= ((byte & 0x7f) as u64) << (7 * i);
            if byte & 0x80 == 0 {
                return Ok(out);
            }
        }
        Err("bad varint".into())
    }
    pub fn take(&mut self, n: usize) -> R<&'a [u8]> {
        if self.left() < n {
            return Err("eof".into());
        }
        let s = &self.b[self.pos..self.pos + n];
        self.pos += n;
        Ok(s)
    }
    pub fn u16le(&mut self) -> R<u16> {
        let s = self.take(2)?;
        Ok(u16::from_le_bytes([s[0], s[1]]))
    }
    /// Entity in the library's compact format (index << 1 | has_generation, then generation - 1).
    pub fn entity(&mut self) -> R<u64> {
        let flagged = self.varint()?;
        let generation = if flagged & 1 == 1 { self.varint()? + 1 } else { 1 };
        Ok((generation << 32) | (flagged >> 1))
    }
    /// Entity as serde serialises it (u64 bits as a varint).
    pub fn serde_entity(&mut self) -> R<u64> {
        self.varint()
    }
}

#[derive(Clone, Debug, PartialEq)]
pub struct CompRec {
    pub kind: Kind,
    pub val: Val,
    /// Slot recorded in the tag (for raw attribution); `None` for entity-valued components.
    pub tag_slot: Option<u8>,
}

#[derive(Clone, Debug, Default, PartialEq)]
pub struct UpdateMsg {
    pub tick: u32,
    pub mappings: Vec<(u64, u64)>,
    pub despawns: Vec<u64>,
    pub removals: Vec<(u64, Vec<Kind>)>,
    pub changes: Vec<(u64, Vec<CompRec>)>,
}

#[derive(Clone, Debug, Default, PartialEq)]
pub struct MutateMsg {
    pub update_tick: u32,
    pub tick: u32,
    pub count: Option<usize>,
    pub index: u16,
    pub entities: Vec<(u64, Vec<CompRec>)>,
    /// Serialized size of each entity block (entity id + size prefix + data).
    pub block_sizes: Vec<usize>,
    pub header_len: usize,
}

fn comp(cur: &mut Cur, fns: &BTreeMap<usize, Kind>) -> R<CompRec> {
    let id = cur.varint()? as usize;
    let kind = *fns.get(&id).ok_or_else(|| format!("unknown fns id {id}"))?;
    match kind {
        Kind::Ref | Kind::Link => {
            let e = cur.serde_entity()?;
            Ok(CompRec { kind, val: Val::Ent(e), tag_slot: None })
        }
        Kind::Big => {
            let t = cur.take(TAG_LEN)?;
            if t[..6] != MAGIC {
                return Err("bad tag magic".into());
            }
            let ver = u32::from_le_bytes([t[8], t[9], t[10], t[11]]);
            let len = cur.varint()? as usize;
            cur.take(len)?;
            Ok(CompRec { kind, val: Val::Big(ver, len as u32), tag_slot: Some(t[6]) })
        }
        _ => {
            let t = cur.take(TAG_LEN)?;
            if t[..6] != MAGIC {
                return Err("bad tag magic".into());
            }
            if t[7] != kind as u8 {
                return Err(format!("tag kind {} under fns of {:?}", t[7], kind));
            }
            let ver = u32::from_le_bytes([t[8], t[9], t[10], t[11]]);
            Ok(CompRec { kind, val: Val::Ver(ver), tag_slot: Some(t[6]) })
        }
    }
}

pub fn decode_update(b: &[u8], fns: &BTreeMap<usize, Kind>) -> R<UpdateMsg> {
    let mut cur = Cur::new(b);
    let flags = cur.u8()?;
    if flags == 0 || flags > 0x0f {
        return Err(format!("bad flags {flags}"));
    }
    let mut m = UpdateMsg { tick: cur.varint()? as u32, ..Default::default() };
    let last = 1u8 << (7 - flags.leading_zeros());
    for bit in [1u8, 2, 4, 8] {
        if flags & bit == 0 {
            continue;
        }
        let sized = bit != last;
        let n = if sized { Some(cur.varint()? as usize) } else { None };
        let mut i = 0;
        loop {
            match n {
                Some(n) if i >= n => break,
                None if cur.done() => break,
                _ => {}
            }
            i += 1;
            match bit {
                1 => {
                    let s = cur.entity()?;
                    let c = cur.entity()?;
                    m.mappings.push((s, c));
                }
                2 => m.despawns.push(cur.entity()?),
                4 => {
                    let e = cur.entity()?;
                    let k = cur.varint()? as usize;
                    let mut v = Vec::new();
                    for _ in 0..k {
                        let id = cur.varint()? as usize;
                        v.push(*fns.get(&id).ok_or_else(|| format!("unknown fns id {id}"))?);
                    }
                    m.removals.push((e, v));
                }
                _ => {
                    let e = cur.entity()?;
                    let k = cur.varint()? as usize;
                    let mut v = Vec::new();
                    for _ in 0..k {
                        v.push(comp(&mut cur, fns)?);
                    }
                    m.changes.push((e, v));
                }
            }
        }
    }
    if !cur.done() {
        return Err("trailing bytes".into());
    }
    Ok(m)
}

pub fn decode_mutate(b: &[u8], fns: &BTreeMap<usize, Kind>, track: bool) -> R<MutateMsg> {
    let mut cur = Cur::new(b);
    let mut m = MutateMsg { update_tick: cur.varint()? as u32, tick: cur.varint()? as u32, ..Default::default() };
    if track {
        m.count = Some(cur.varint()? as usize);
    }
    m.index = cur.u16le()?;
    m.header_len = cur.pos;
    while !cur.done() {
        let start = cur.pos;
        let e = cur.entity()?;
        let size = cur.varint()? as usize;
        let data = cur.take(size)?;
        let mut dc = Cur::new(data);
        let mut v = Vec::new();
        while !dc.done() {
            v.push(comp(&mut dc, fns)?);
        }
        m.entities.push((e, v));
        m.block_sizes.push(cur.pos - start);
    }
    Ok(m)
}

pub fn decode_acks(b: &[u8]) -> R<Vec<u16>> {
    let mut cur = Cur::new(b);
    let mut v = Vec::new();
    while !cur.done() {
        v.push(cur.u16le()?);
    }
    Ok(v)
}

/// Decoded server event message (payload formats of the pool).
#[derive(Clone, Debug, Default, PartialEq)]
pub struct SEvMsg {
    /// Tick stamped by the library (dependent events only).
    pub tick: Option<u32>,
    pub seq: u32,
    pub ent: Option<u64>,
    pub targets: Vec<u64>,
}

pub fn decode_sev(b: &[u8], kind: crate::pool::SEv) -> R<SEvMsg> {
    use crate::pool::SEv;
    let mut cur = Cur::new(b);
    let mut m = SEvMsg::default();
    if kind != SEv::Ind {
        m.tick = Some(cur.varint()? as u32);
    }
    match kind {
        SEv::Ord => {
            m.seq = cur.varint()? as u32;
            if cur.u8()? == 1 {
                m.ent = Some(cur.serde_entity()?);
            }
        }
        SEv::Trig => {
            let n = cur.varint()? as usize;
            for _ in 0..n {
                m.targets.push(cur.entity()?);
            }
            m.seq = cur.varint()? as u32;
        }
        _ => m.seq = cur.varint()? as u32,
    }
    if !cur.done() {
        return Err("trailing bytes in event".into());
    }
    Ok(m)
}

#[derive(Clone, Debug, Default, PartialEq)]
pub struct CEvMsg {
    pub seq: u32,
    pub ent: Option<u64>,
    pub targets: Vec<u64>,
}

pub fn decode_cev(b: &[u8], kind: crate::pool::CEv) -> R<CEvMsg> {
    use crate::pool::CEv;
    let mut cur = Cur::new(b);
    let mut m = CEvMsg::default();
    match kind {
        CEv::Ord | CEv::Unord | CEv::Unrel => m.seq = cur.varint()? as u32,
        CEv::Map => {
            m.seq = cur.varint()? as u32;
            m.ent = Some(cur.serde_entity()?);
        }
        CEv::Trig => {
            let n = cur.varint()? as usize;
            for _ in 0..n {
                m.targets.push(cur.entity()?);
            }
            m.seq = cur.varint()? as u32;
        }
    }
    Ok(m)
}

/// Raw scan, independent of the decoder: slots of all tags that appear anywhere in `b`.
pub fn scan_tags(b: &[u8]) -> Vec<(u8, u8, u32)> {
    let mut out = Vec::new();
    if b.len() < TAG_LEN {
        return out;
    }
    let mut i = 0;
    while i + TAG_LEN <= b.len() {
        if b[i..i + 6] == MAGIC {
            let ver = u32::from_le_bytes([b[i + 8], b[i + 9], b[i + 10], b[i + 11]]);
            out.push((b[i + 6], b[i + 7], ver));
            i += TAG_LEN;
        } else {
            i += 1;
        }
    }
    out
}

pub fn encode_varint(mut v: u64, out: &mut Vec<u8>) {
    loop {
        let byte = (v & 0x7f) as u8;
        v >>= 7;
        if v == 0 {
            out.push(byte);
            break;
        }
        out.push(byte | 0x80);
    }
}

pub fn varint_len(v: u64) -> usize {
    let mut n = 1;
    let mut v = v >> 7;
    while v != 0 {
        n += 1;
        v >>= 7;
    }
    n
}
