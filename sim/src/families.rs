//! Checks that do not use the shared replication simulation (C12 component level, C13, C14, C17).

use crate::check::Replay;

pub fn replay(r: &Replay) -> i32 {
    eprintln!("harness error: unknown replay family {}", r.family);
    2
}
