//! Checks that do not use the shared replication simulation (C12 component level, C13, C14, C17).

use crate::check::{self, Replay};
use crate::fam_c06::C06Enum;
use crate::fam_c09::C09Enum;
use crate::fam_c12::C12c;
use crate::fam_c13::C13;
use crate::fam_c14::{self, C14};
use crate::fam_c17::C17;

pub fn worker(family: &str, prop: &str, seed: u64, start: u64, stride: u64, total: u64) {
    match family {
        "c17" => check::worker::<C17>(prop, seed, start, stride, total),
        "c13" => check::worker::<C13>(prop, seed, start, stride, total),
        "c12c" => check::worker::<C12c>(prop, seed, start, stride, total),
        "c06enum" => check::worker::<C06Enum>(prop, seed, start, stride, total),
        "c09enum" => check::worker::<C09Enum>(prop, seed, start, stride, total),
        "c14" => check::worker::<C14>(prop, seed, start, stride, total),
        _ => {
            eprintln!("harness error: unknown family {family}");
            std::process::exit(2);
        }
    }
}

pub fn replay(r: &Replay) -> i32 {
    match r.family.as_str() {
        "c17" => check::replay::<C17>(r),
        "c13" => check::replay::<C13>(r),
        "c12c" => check::replay::<C12c>(r),
        "c06enum" => check::replay::<C06Enum>(r),
        "c09enum" => check::replay::<C09Enum>(r),
        "c14" => check::replay::<C14>(r),
        _ => {
            eprintln!("harness error: unknown replay family {}", r.family);
            2
        }
    }
}

pub fn check(prop: &str, tier: &str) -> i32 {
    match prop {
        "C17" => check::check::<C17>(prop, tier, "exploration", serde_json::Value::Null),
        "C06" => {
            let (c1, e1) = check::run_check::<C06Enum>(prop, tier, "fault_enumeration", serde_json::Value::Null);
            if c1 == 2 {
                return 2;
            }
            let (c2, e2) = check::run_check::<crate::repl_engine::Repl>(prop, tier, "fault_enumeration", serde_json::Value::Null);
            if c2 == 2 {
                return 2;
            }
            let mut e1 = e1.unwrap();
            e1["coverage"]["exhaustive"] = true.into();
            let mut ev = merge_evidence(e1, e2.unwrap(), "enumerated", "seeded_mutation", c1.max(c2));
            // Only the enumerated sub-batch is exhaustive (for its stated space).
            ev["coverage"].as_object_mut().unwrap().remove("exhaustive");
            check::write_evidence(prop, &ev);
            c1.max(c2)
        }
        "C09" => {
            let (c1, e1) = check::run_check::<crate::repl_engine::Repl>(prop, tier, "exploration", serde_json::Value::Null);
            if c1 == 2 {
                return 2;
            }
            let (c2, e2) = check::run_check::<C09Enum>(prop, tier, "exploration", serde_json::Value::Null);
            if c2 == 2 {
                return 2;
            }
            let ev = merge_evidence(e1.unwrap(), e2.unwrap(), "seeded", "crash_points", c1.max(c2));
            check::write_evidence(prop, &ev);
            c1.max(c2)
        }
        "C12" => {
            // Two sub-batches: end to end through the replication simulation, and component level.
            let (c1, e1) = check::run_check::<crate::repl_engine::Repl>(prop, tier, "exploration", serde_json::Value::Null);
            if c1 == 2 {
                return 2;
            }
            let (c2, e2) = check::run_check::<C12c>(prop, tier, "exploration", serde_json::Value::Null);
            if c2 == 2 {
                return 2;
            }
            let e1 = merge_evidence(e1.unwrap(), e2.unwrap(), "end_to_end", "component_level", c1.max(c2));
            check::write_evidence(prop, &e1);
            c1.max(c2)
        }
        "C13" => {
            // Two sub-batches: configuration transitions with statuses set by the harness, and the real example
            // backend losing a connection while events are written.
            let (c1, e1) = check::run_check::<C13>(prop, tier, "exploration", serde_json::Value::Null);
            if c1 == 2 {
                return 2;
            }
            let (c2, e2) = check::run_check::<crate::fam_c17::C17>(prop, tier, "exploration", serde_json::Value::Null);
            if c2 == 2 {
                return 2;
            }
            let ev = merge_evidence(e1.unwrap(), e2.unwrap(), "configurations", "example_backend", c1.max(c2));
            check::write_evidence(prop, &ev);
            c1.max(c2)
        }
        "C14" => {
            // "The same hash in every run": compare this process with two fresh ones.
            let here = fam_c14::hash_of(&fam_c14::CANON);
            let exe = std::env::current_exe().expect("own path");
            let mut others = vec![];
            for _ in 0..2 {
                match std::process::Command::new(&exe).arg("c14hash").output() {
                    Ok(o) => others.push(String::from_utf8_lossy(&o.stdout).trim().to_string()),
                    Err(e) => {
                        eprintln!("harness error: cannot run c14hash: {e}");
                        return 2;
                    }
                }
            }
            let stable = others.iter().all(|h| *h == here);
            let extra = serde_json::json!({"cross_process_hash": {"this_process": here, "fresh_processes": others, "equal": stable}});
            if !stable {
                // Reported through the normal path by a directed pair that cannot fail otherwise.
                println!("hash differs between processes: {here} vs {others:?}");
                let r = check::Replay {
                    property: "C14".into(),
                    oracle: "hash_differs_between_processes".into(),
                    seed: check::seed_from_env(),
                    index: 0,
                    family: "c14".into(),
                    violation: crate::sim::Violation { prop: "C14".into(), oracle: "hash_differs_between_processes".into(), detail: format!("{here} vs {others:?}"), step: 0 },
                    original_steps: 0,
                    trace: serde_json::json!({"server": fam_c14::CANON, "client": fam_c14::CANON, "delay": 0, "late_client": false}),
                };
                let path = check::write_replay(&r);
                println!("VIOLATION property=C14 replay={path}");
                return 1;
            }
            check::check::<C14>(prop, tier, "exploration", extra)
        }
        _ => {
            eprintln!("harness error: no check for {prop}");
            2
        }
    }
}

/// One evidence record out of two sub-batches: counts add up, samples and rules are concatenated, the
/// per-sub-batch coverage is kept under `sub_batches`.
fn merge_evidence(mut e1: serde_json::Value, e2: serde_json::Value, n1: &str, n2: &str, code: i32) -> serde_json::Value {
    let n = |v: &serde_json::Value, k: &str| v["coverage"][k].as_u64().unwrap_or(0);
    let evals = n(&e1, "evaluations") + n(&e2, "evaluations");
    let distinct = n(&e1, "distinct_nontrivial") + n(&e2, "distinct_nontrivial");
    let wall = e1["wall_s"].as_f64().unwrap_or(0.0) + e2["wall_s"].as_f64().unwrap_or(0.0);
    let mut samples = e1["coverage"]["samples"].as_array().cloned().unwrap_or_default();
    samples.extend(e2["coverage"]["samples"].as_array().cloned().unwrap_or_default());
    let rule = format!("two sub-batches. {n1}: {} {n2}: {}", e1["coverage"]["rule"].as_str().unwrap_or(""), e2["coverage"]["rule"].as_str().unwrap_or(""));
    let mut sub = serde_json::Map::new();
    sub.insert(n1.to_string(), e1["coverage"].clone());
    sub.insert(n2.to_string(), e2["coverage"].clone());
    e1["coverage"]["evaluations"] = evals.into();
    e1["coverage"]["distinct_nontrivial"] = distinct.into();
    e1["coverage"]["samples"] = samples.into();
    e1["coverage"]["rule"] = rule.into();
    e1["coverage"]["sub_batches"] = serde_json::Value::Object(sub);
    e1["wall_s"] = wall.into();
    e1["violations"] = ((code == 1) as u64).into();
    e1
}

/// Child-process entry points shared by all engines.
pub fn run_trace(family: &str, path: &str, no_taint: bool) {
    match family {
        "replication" => check::run_trace_child::<crate::repl_engine::Repl>(path, no_taint),
        "c06enum" => check::run_trace_child::<C06Enum>(path, no_taint),
        "c09enum" => check::run_trace_child::<C09Enum>(path, no_taint),
        "c12c" => check::run_trace_child::<C12c>(path, no_taint),
        "c13" => check::run_trace_child::<C13>(path, no_taint),
        "c14" => check::run_trace_child::<C14>(path, no_taint),
        "c17" => check::run_trace_child::<C17>(path, no_taint),
        _ => std::process::exit(2),
    }
}

pub fn shrink_trace(family: &str, pin: &str, pout: &str, prop: &str, oracle: &str) {
    match family {
        "replication" => check::shrink_trace_child::<crate::repl_engine::Repl>(pin, pout, prop, oracle),
        "c06enum" => check::shrink_trace_child::<C06Enum>(pin, pout, prop, oracle),
        "c09enum" => check::shrink_trace_child::<C09Enum>(pin, pout, prop, oracle),
        "c12c" => check::shrink_trace_child::<C12c>(pin, pout, prop, oracle),
        "c13" => check::shrink_trace_child::<C13>(pin, pout, prop, oracle),
        "c14" => check::shrink_trace_child::<C14>(pin, pout, prop, oracle),
        "c17" => check::shrink_trace_child::<C17>(pin, pout, prop, oracle),
        _ => std::process::exit(2),
    }
}
