//! Checks that do not use the shared replication simulation (C12 component level, C13, C14, C17).

use crate::check::Replay;

pub fn worker(family: &str, _prop: &str, _seed: u64, _start: u64, _stride: u64, _total: u64) {
    eprintln!("harness error: unknown family {family}");
    std::process::exit(2);
}

pub fn replay(r: &Replay) -> i32 {
    eprintln!("harness error: unknown replay family {}", r.family);
    2
}
