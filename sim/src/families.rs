//! Checks that do not use the shared replication simulation (C12 component level, C13, C14, C17).

use crate::check::{self, Replay};
use crate::fam_c13::C13;
use crate::fam_c17::C17;

pub fn worker(family: &str, prop: &str, seed: u64, start: u64, stride: u64, total: u64) {
    match family {
        "c17" => check::worker::<C17>(prop, seed, start, stride, total),
        "c13" => check::worker::<C13>(prop, seed, start, stride, total),
        _ => {
            eprintln!("harness error: unknown family {family}");
            std::process::exit(2);
        }
    }
}

pub fn replay(r: &Replay) -> i32 {
    match r.family.as_str() {
        "c17" => check::replay::<C17>(r),
        "c13" => check::replay::<C13>(r),
        _ => {
            eprintln!("harness error: unknown replay family {}", r.family);
            2
        }
    }
}

pub fn check(prop: &str, tier: &str) -> i32 {
    match prop {
        "C17" => check::check::<C17>(prop, tier, "exploration", serde_json::Value::Null),
        "C13" => check::check::<C13>(prop, tier, "exploration", serde_json::Value::Null),
        _ => {
            eprintln!("harness error: no check for {prop}");
            2
        }
    }
}
