//! Batch driver: worker processes, aggregation, minimisation, replay files, evidence, known findings.

use std::collections::BTreeMap;
use std::io::{BufRead, BufReader, Write};
use std::process::{Command, Stdio};
use std::time::Instant;

use serde::{Deserialize, Serialize};
use serde_json::json;

use crate::engine::Engine;
use crate::sim::{Stats, Violation};
use crate::shrink;

pub const DEFAULT_SEED: u64 = 20_250_925;
pub const VERIF: &str = "/verif";

/// Where evidence and replay files go (overridden when the harness itself is being tested against a
/// modified copy of the repository, so that /verif is not touched).
pub fn out_dir() -> String {
    std::env::var("VERIF_OUT").unwrap_or_else(|_| VERIF.to_string())
}

#[derive(Serialize, Deserialize, Clone, Debug)]
pub struct Replay {
    pub property: String,
    pub oracle: String,
    pub seed: u64,
    pub index: u64,
    pub family: String,
    pub violation: Violation,
    pub original_steps: usize,
    pub trace: serde_json::Value,
}

#[derive(Serialize, Deserialize, Clone, Debug)]
pub struct KnownFinding {
    pub id: String,
    pub property: String,
    /// "known" or "fixed"
    pub status: String,
    pub what: String,
    #[serde(default)]
    pub commit: String,
    /// Oracles (of `property`) whose violations this entry explains, for the directed scenario.
    #[serde(default)]
    pub oracles: Vec<String>,
}

pub fn load_known() -> Vec<KnownFinding> {
    let p = format!("{VERIF}/known_findings.json");
    match std::fs::read_to_string(&p) {
        Ok(s) => serde_json::from_str(&s).unwrap_or_else(|e| {
            eprintln!("harness error: {p} does not parse: {e}");
            std::process::exit(2);
        }),
        Err(_) => vec![],
    }
}

pub fn seed_from_env() -> u64 {
    std::env::var("VERIF_SEED").ok().and_then(|s| s.parse().ok()).unwrap_or(DEFAULT_SEED)
}

/// Number of runs per property and tier (fixed, so the unchanged tree sees the same runs every time).
pub fn budget(prop: &str, tier: &str) -> u64 {
    let quick = match prop {
        "C06" => 60_000,
        "C17" => 60_000,
        "C14" => 40_000,
        "C12c" => 300_000,
        "C13" => 150_000,
        _ => 100_000,
    };
    let scale = std::env::var("VERIF_SCALE").ok().and_then(|s| s.parse::<f64>().ok()).unwrap_or(1.0);
    let n = if tier == "thorough" { quick * 20 } else { quick };
    ((n as f64) * scale) as u64
}

#[derive(Serialize, Deserialize, Default)]
pub struct WorkerOut {
    pub evals: u64,
    pub stats: Stats,
    pub violations: Vec<(u64, Violation)>,
    pub harness_errors: Vec<(u64, String)>,
    pub fault_free_runs: u64,
    pub samples: Vec<serde_json::Value>,
}

/// Runs indices start, start+stride, ... < total in this process; prints a progress line per run and
/// one JSON line at the end.
pub fn worker<E: Engine>(prop: &str, seed: u64, start: u64, stride: u64, total: u64) {
    let mut out = WorkerOut::default();
    let stdout = std::io::stdout();
    let mut i = start;
    while i < total {
        {
            let mut l = stdout.lock();
            let _ = writeln!(l, "R {i}");
            let _ = l.flush();
        }
        // A panic of the harness itself (outside the guarded app frames) is a harness error, never a violation.
        let res = std::panic::catch_unwind(|| {
            let trace = E::generate_at(prop, seed, i);
            let s = E::run(&trace, false, false);
            (trace, s)
        });
        let (trace, s) = match res {
            Ok(x) => x,
            Err(e) => {
                let msg = e.downcast_ref::<String>().cloned().or_else(|| e.downcast_ref::<&str>().map(|s| s.to_string())).unwrap_or_default();
                out.harness_errors.push((i, format!("the harness panicked: {msg}")));
                i += stride;
                continue;
            }
        };
        out.evals += 1;
        if s.stats.faults.is_empty() {
            out.fault_free_runs += 1;
        }
        // Per-run digest: everything observable about the run, mixed with its index.
        let mut st = s.stats.clone();
        let mut d = crate::sim::fnv(st.digest, &i.to_le_bytes());
        d = crate::sim::fnv(d, serde_json::to_string(&s.violations).unwrap().as_bytes());
        d = crate::sim::fnv(d, serde_json::to_string(&(&st.faults, &st.probes, &st.ops, st.steps, st.messages, st.bytes, st.server_frames, st.client_frames)).unwrap().as_bytes());
        d = crate::sim::fnv(d, format!("{:?}", st.sigs).as_bytes());
        st.digest = d;
        out.stats.merge(&st);
        if let Some(e) = &s.harness_error {
            if out.harness_errors.len() < 5 {
                out.harness_errors.push((i, e.clone()));
            }
        }
        let mut first = true;
        for v in &s.violations {
            if v.prop == prop {
                if first && out.violations.len() < 20 {
                    out.violations.push((i, v.clone()));
                }
                first = false;
            } else {
                *out.stats.other_property_hits.entry(v.prop.clone()).or_insert(0) += 1;
            }
        }
        if start == 0 && out.samples.len() < 2 && E::len(&trace) <= 60 {
            out.samples.push(json!({"index": i, "trace": trace}));
        }
        i += stride;
    }
    let mut l = stdout.lock();
    let _ = writeln!(l, "DONE {}", serde_json::to_string(&out).unwrap());
}

pub struct BatchResult {
    pub out: WorkerOut,
    /// Runs at which a worker process died (abort, stack overflow ...).
    pub crashes: Vec<u64>,
    pub wall_s: f64,
}

pub fn run_batch<E: Engine>(prop: &str, seed: u64, total: u64) -> BatchResult {
    let t0 = Instant::now();
    let workers = std::env::var("VERIF_WORKERS")
        .ok()
        .and_then(|s| s.parse::<u64>().ok())
        .unwrap_or_else(|| std::thread::available_parallelism().map(|n| n.get() as u64).unwrap_or(8))
        .clamp(1, 64)
        .min(total.max(1));
    let exe = std::env::current_exe().expect("own path");
    let mut handles = vec![];
    for w in 0..workers {
        let mut child = Command::new(&exe)
            .args(["worker", E::FAMILY, prop, &seed.to_string(), &w.to_string(), &workers.to_string(), &total.to_string()])
            .stdout(Stdio::piped())
            .stderr(Stdio::null())
            .spawn()
            .expect("spawn worker");
        let stdout = child.stdout.take().unwrap();
        handles.push(std::thread::spawn(move || {
            let mut last: Option<u64> = None;
            let mut done: Option<WorkerOut> = None;
            for line in BufReader::new(stdout).lines().map_while(Result::ok) {
                if let Some(r) = line.strip_prefix("R ") {
                    last = r.trim().parse().ok();
                } else if let Some(d) = line.strip_prefix("DONE ") {
                    done = serde_json::from_str(d).ok();
                }
            }
            let _ = child.wait();
            (last, done)
        }));
    }
    let mut agg = WorkerOut::default();
    let mut crashes = vec![];
    for h in handles {
        let (last, done) = h.join().expect("reader thread");
        match done {
            Some(o) => {
                agg.evals += o.evals;
                agg.fault_free_runs += o.fault_free_runs;
                agg.stats.merge(&o.stats);
                agg.violations.extend(o.violations);
                agg.harness_errors.extend(o.harness_errors);
                agg.samples.extend(o.samples);
            }
            None => {
                if let Some(i) = last {
                    crashes.push(i);
                } else {
                    eprintln!("harness error: a worker produced no output");
                    std::process::exit(2);
                }
            }
        }
    }
    agg.violations.sort_by_key(|(i, _)| *i);
    BatchResult { out: agg, crashes, wall_s: t0.elapsed().as_secs_f64() }
}

/// Runs `sim replay <file>` in a fresh process; true if it reports the same violation.
pub fn replay_reproduces(path: &str) -> bool {
    let exe = std::env::current_exe().expect("own path");
    let out = Command::new(exe).args(["replay", path]).output();
    match out {
        Ok(o) => o.status.code() == Some(1),
        // Killed by a signal (abort): for crash violations that is the reproduction.
        Err(_) => false,
    }
}

pub fn replay_file(path: &str) -> Result<Replay, i32> {
    let Ok(s) = std::fs::read_to_string(path) else {
        eprintln!("harness error: cannot read {path}");
        return Err(2);
    };
    serde_json::from_str::<Replay>(&s).map_err(|_| {
        eprintln!("harness error: {path} is not a replay file");
        2
    })
}

pub fn replay<E: Engine>(r: &Replay) -> i32 {
    let Ok(trace) = serde_json::from_value::<E::T>(r.trace.clone()) else {
        eprintln!("harness error: trace of family {} does not parse", r.family);
        return 2;
    };
    if r.oracle == "process_abort" {
        // The history kills the process that runs it: replay it in a child and report how that ended.
        return match run_isolated::<E>(&trace, false) {
            Err(why) => {
                println!("REPRODUCED property={} oracle=process_abort: the process running this history died ({why})", r.property);
                1
            }
            Ok(_) => {
                println!("not reproduced: {} process_abort", r.property);
                0
            }
        };
    }
    let o = E::run(&trace, true, false);
    for l in &o.log {
        println!("{l}");
    }
    if let Some(e) = &o.harness_error {
        println!("harness error: {e}");
        return 2;
    }
    match o.violations.iter().find(|v| v.prop == r.property && v.oracle == r.oracle) {
        Some(v) => {
            println!("REPRODUCED property={} oracle={} step={}: {}", v.prop, v.oracle, v.step, v.detail);
            if v.detail == r.violation.detail {
                println!("identical to the recorded violation");
            }
            1
        }
        None => {
            println!("not reproduced: {} {}", r.property, r.oracle);
            0
        }
    }
}

pub fn write_replay(r: &Replay) -> String {
    let dir = format!("{}/replays", out_dir());
    let _ = std::fs::create_dir_all(&dir);
    let path = format!("{dir}/{}-{}-{}.json", r.property, r.seed, r.index);
    std::fs::write(&path, serde_json::to_string_pretty(r).unwrap()).expect("write replay");
    path
}

pub fn write_evidence(prop: &str, ev: &serde_json::Value) {
    let dir = format!("{}/evidence", out_dir());
    let _ = std::fs::create_dir_all(&dir);
    let path = format!("{dir}/{prop}.json");
    std::fs::write(&path, serde_json::to_string_pretty(ev).unwrap()).expect("write evidence");
}

/// Directed scenarios + seeded search + report + evidence for one property.
pub fn check<E: Engine>(prop: &str, tier: &str, level: &str, extra: serde_json::Value) -> i32 {
    let (code, ev) = run_check::<E>(prop, tier, level, extra);
    if let Some(ev) = ev {
        write_evidence(prop, &ev);
    }
    code
}

/// Like `check`, but hands the evidence back instead of writing it (for checks made of sub-batches).
pub fn run_check<E: Engine>(prop: &str, tier: &str, level: &str, extra: serde_json::Value) -> (i32, Option<serde_json::Value>) {
    let seed = seed_from_env();
    let total = E::fixed_total(tier).unwrap_or_else(|| budget(if E::FAMILY == "c12c" { "C12c" } else { prop }, tier));
    let known = load_known();
    let t0 = Instant::now();

    // 1. Directed scenarios: regressions of repaired findings must pass, known findings are reported.
    let mut violations: Vec<(String, Violation, E::T, u64)> = vec![];
    let mut known_lines = vec![];
    let mut scenario_runs = 0u64;
    for sc in E::directed(prop) {
        scenario_runs += 1;
        let is_known = known.iter().any(|k| k.id == sc.id && k.status == "known");
        let entry = known.iter().find(|k| k.id == sc.id && k.property == prop && k.status == "known");
        // In a process of its own: memory corruption in the code under test must not take the driver down.
        let sim = match run_isolated::<E>(&sc.trace, is_known) {
            Ok(o) => o,
            Err(why) => {
                let v = Violation { prop: prop.to_string(), oracle: "process_abort".into(), detail: format!("the process running directed history {} died ({why})", sc.id), step: 0 };
                violations.push((format!("scenario:{}", sc.id), v, sc.trace.clone(), 0));
                continue;
            }
        };
        if let Some(e) = &sim.harness_error {
            eprintln!("harness error in scenario {}: {e}", sc.id);
            return (2, None);
        }
        let hit = sim.violations.iter().find(|v| v.prop == prop);
        if is_known {
            if let Some(k) = entry {
                match sim.violations.iter().find(|v| v.prop == prop && k.oracles.contains(&v.oracle)) {
                    Some(v) => known_lines.push(format!("KNOWN-FINDING: property={prop} {} {} [{}: {}]", k.id, k.what, v.oracle, v.detail)),
                    None => known_lines.push(format!("KNOWN-FINDING: property={prop} {} {} [directed scenario no longer shows the symptom]", k.id, k.what)),
                }
            }
            // Any other violation of this property in the scenario is not explained by the entry.
            let allowed: Vec<String> = entry.map(|k| k.oracles.clone()).unwrap_or_default();
            if let Some(v) = sim.violations.iter().find(|v| v.prop == prop && !allowed.contains(&v.oracle)) {
                violations.push((format!("scenario:{}", sc.id), v.clone(), sc.trace.clone(), 0));
            }
        } else if let Some(v) = hit {
            violations.push((format!("scenario:{}", sc.id), v.clone(), sc.trace.clone(), 0));
        }
    }

    // 2. Seeded search.
    let batch = run_batch::<E>(prop, seed, total);
    if !batch.out.harness_errors.is_empty() && batch.out.violations.is_empty() && batch.crashes.is_empty() && violations.is_empty() {
        for (i, e) in &batch.out.harness_errors {
            eprintln!("harness error at run {i}: {e}");
        }
        return (2, None);
    }
    for i in &batch.crashes {
        let trace = E::generate_at(prop, seed, *i);
        let v = Violation { prop: if prop == "C06" { "C06".into() } else { prop.to_string() }, oracle: "process_abort".into(), detail: format!("worker process died in run {i}"), step: 0 };
        violations.push((format!("run:{i}"), v, trace, *i));
    }
    if let Some((i, v)) = batch.out.violations.first() {
        let trace = E::generate_at(prop, seed, *i);
        violations.push((format!("run:{i}"), v.clone(), trace, *i));
    }

    // 3. Report.
    let mut exit = 0;
    let mut reported = vec![];
    if let Some((origin, v, trace, index)) = violations.first() {
        // Minimisation also runs in a child process; if that dies the unshrunk trace is reported.
        let (min, runs) = if v.oracle == "process_abort" { shrink::shrink_abort::<E>(trace, 250) } else { shrink_isolated::<E>(trace, &v.prop, &v.oracle).unwrap_or((trace.clone(), 0)) };
        let final_v = match run_isolated::<E>(&min, false) {
            Ok(o) => o.violations.into_iter().find(|x| x.prop == v.prop && x.oracle == v.oracle).unwrap_or(v.clone()),
            Err(_) => v.clone(),
        };
        let r = Replay {
            property: prop.to_string(),
            oracle: v.oracle.clone(),
            seed,
            index: *index,
            family: E::FAMILY.into(),
            violation: final_v.clone(),
            original_steps: E::len(trace),
            trace: serde_json::to_value(&min).unwrap(),
        };
        let path = write_replay(&r);
        if !replay_reproduces(&path) {
            eprintln!("harness error: violation from {origin} does not reproduce from {path}");
            return (2, None);
        }
        println!("violation ({origin}, {} -> {} steps, {runs} shrink runs): {} {}: {}", E::len(trace), E::len(&min), final_v.prop, final_v.oracle, final_v.detail);
        println!("VIOLATION property={prop} replay={path}");
        reported.push(json!({"origin": origin, "oracle": final_v.oracle, "detail": final_v.detail, "replay": path, "steps": E::len(&min)}));
        exit = 1;
    }
    for l in &known_lines {
        println!("{l}");
    }

    // 4. Evidence.
    let st = &batch.out.stats;
    let wall = t0.elapsed().as_secs_f64();
    let unreached: Vec<&str> = E::expected_probes().iter().copied().filter(|p| !st.probes.contains_key(*p) && !st.faults.contains_key(*p)).collect();
    let ev = json!({
        "property_id": prop,
        "tier": tier,
        "seed": seed,
        "level": level,
        "wall_s": wall,
        "violations": if exit == 0 { 0 } else { 1 },
        "coverage": {
            "evaluations": batch.out.evals + scenario_runs,
            "distinct_nontrivial": st.nontrivial_sigs.len(),
            "rule": E::rule(),
            "samples": batch.out.samples,
            "runs_per_hour": (batch.out.evals as f64 / batch.wall_s.max(1e-9) * 3600.0) as u64,
            "simulated_frames": st.server_frames + st.client_frames,
            "simulated_seconds": st.sim_ms / 1000,
            "server_ticks": st.ticks,
            "steps": st.steps,
            "messages_relayed": st.messages,
            "bytes_relayed": st.bytes,
            "faults_fired": st.faults,
            "ops": st.ops,
            "probes": st.probes,
            "unreached_probes": unreached,
            "distinct_signatures_all": st.sigs.len(),
            "runs_with_progress": st.progress_runs,
            "fault_free_runs": batch.out.fault_free_runs,
            "other_property_hits": st.other_property_hits,
            "directed_scenarios": scenario_runs,
            "worker_crashes": batch.crashes,
            "known_findings_reported": known_lines,
            "reported": reported,
            "components": E::components(),
            "extra": extra,
        },
        "assumptions": [
            "channel contracts as stated in the property (no duplication or corruption of server->client traffic, no reordering on ordered channels)",
            "single-threaded Bevy executor (no multi_threaded feature): one seed is one execution",
            "seeded search samples schedules; a clean batch is evidence, not proof",
        ],
    });
    println!(
        "{prop} {tier}: {} runs in {:.1}s ({} runs/h), {} nontrivial signatures, {} violations",
        batch.out.evals,
        wall,
        (batch.out.evals as f64 / batch.wall_s.max(1e-9) * 3600.0) as u64,
        st.nontrivial_sigs.len(),
        if exit == 0 { 0 } else { 1 }
    );
    (exit, Some(ev))
}


pub fn merge_counts(a: &mut BTreeMap<String, u64>, b: &BTreeMap<String, u64>) {
    for (k, v) in b {
        *a.entry(k.clone()).or_insert(0) += v;
    }
}

/// Determinism self-check: the same batch with 1, 5 and 16 worker processes must produce the same digest.
pub fn determinism<E: Engine>(prop: &str, total: u64) -> bool {
    let seed = seed_from_env();
    let mut digests = vec![];
    for w in ["1", "5", "16"] {
        // SAFETY: single-threaded at this point.
        unsafe { std::env::set_var("VERIF_WORKERS", w) };
        let b = run_batch::<E>(prop, seed, total);
        digests.push((w, b.out.stats.digest, b.out.evals, b.out.violations.len()));
    }
    unsafe { std::env::remove_var("VERIF_WORKERS") };
    let ok = digests.iter().all(|d| d.1 == digests[0].1 && d.2 == digests[0].2);
    println!("{prop} [{}] {total} runs: {} {:?}", E::FAMILY, if ok { "deterministic" } else { "DIVERGED" }, digests);
    ok
}

#[derive(Serialize, Deserialize)]
pub struct IsoOut {
    pub violations: Vec<Violation>,
    pub harness_error: Option<String>,
}

fn tmp_path(tag: &str) -> String {
    let dir = format!("{}/replays/tmp", out_dir());
    let _ = std::fs::create_dir_all(&dir);
    format!("{dir}/{tag}-{}.json", std::process::id())
}

/// Runs one trace in a child process.
pub fn run_isolated<E: Engine>(trace: &E::T, no_taint: bool) -> Result<IsoOut, String> {
    let path = tmp_path("iso");
    std::fs::write(&path, serde_json::to_string(trace).unwrap()).map_err(|e| e.to_string())?;
    let exe = std::env::current_exe().map_err(|e| e.to_string())?;
    let out = Command::new(exe).args(["run-trace", E::FAMILY, &path, if no_taint { "1" } else { "0" }]).stderr(Stdio::null()).output().map_err(|e| e.to_string())?;
    let _ = std::fs::remove_file(&path);
    let text = String::from_utf8_lossy(&out.stdout);
    match text.lines().find_map(|l| l.strip_prefix("OUT ")) {
        Some(j) => serde_json::from_str(j).map_err(|e| e.to_string()),
        None => Err(format!("exit status {:?}", out.status)),
    }
}

pub fn run_trace_child<E: Engine>(path: &str, no_taint: bool) {
    let t: E::T = serde_json::from_str(&std::fs::read_to_string(path).expect("trace file")).expect("trace");
    let o = E::run(&t, false, no_taint);
    println!("OUT {}", serde_json::to_string(&IsoOut { violations: o.violations, harness_error: o.harness_error }).unwrap());
}

pub fn shrink_isolated<E: Engine>(trace: &E::T, prop: &str, oracle: &str) -> Option<(E::T, usize)> {
    let (pin, pout) = (tmp_path("shrink-in"), tmp_path("shrink-out"));
    std::fs::write(&pin, serde_json::to_string(trace).unwrap()).ok()?;
    let exe = std::env::current_exe().ok()?;
    let st = Command::new(exe).args(["shrink-trace", E::FAMILY, &pin, &pout, prop, oracle]).stderr(Stdio::null()).stdout(Stdio::null()).status().ok()?;
    let _ = std::fs::remove_file(&pin);
    if !st.success() {
        return None;
    }
    let text = std::fs::read_to_string(&pout).ok()?;
    let _ = std::fs::remove_file(&pout);
    let (t, runs): (E::T, usize) = serde_json::from_str(&text).ok()?;
    Some((t, runs))
}

pub fn shrink_trace_child<E: Engine>(pin: &str, pout: &str, prop: &str, oracle: &str) {
    let t: E::T = serde_json::from_str(&std::fs::read_to_string(pin).expect("trace file")).expect("trace");
    let (min, runs) = shrink::shrink::<E>(&t, prop, oracle, 3000);
    std::fs::write(pout, serde_json::to_string(&(min, runs)).unwrap()).expect("write");
}
