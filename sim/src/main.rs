mod alloc;
mod check;
mod engine;
mod fam_c06;
mod fam_c09;
mod fam_c12;
mod fam_c13;
mod fam_c14;
mod fam_c17;
mod families;
mod generate;
mod oracles;
mod pool;
mod repl_engine;
mod rng;
mod scenarios;
mod shrink;
mod sim;
mod steps;
mod wire;

#[global_allocator]
static GLOBAL: alloc::Counting = alloc::Counting;

use std::collections::BTreeMap;

/// With VERIF_LOG set, the library's own log output (error / warn / debug) is printed: a debugging aid.
struct StderrLog;
impl log::Log for StderrLog {
    fn enabled(&self, m: &log::Metadata) -> bool {
        m.target().starts_with("bevy_replicon")
    }
    fn log(&self, r: &log::Record) {
        if self.enabled(r.metadata()) {
            println!("      [{} {}] {}", r.level(), r.target(), r.args());
        }
    }
    fn flush(&self) {}
}
static LOGGER: StderrLog = StderrLog;

fn main() {
    let args: Vec<String> = std::env::args().collect();
    if let Ok(l) = std::env::var("VERIF_LOG") {
        let _ = log::set_logger(&LOGGER);
        log::set_max_level(match l.as_str() {
            "debug" => log::LevelFilter::Debug,
            "trace" => log::LevelFilter::Trace,
            _ => log::LevelFilter::Warn,
        });
    }
    if std::env::var("SHOWPANIC").is_err() {
        sim::silent_panics();
    }
    match args.get(1).map(|s| s.as_str()) {
        Some("one") => {
            let prop = &args[2];
            let seed: u64 = args[3].parse().unwrap();
            let index: u64 = args[4].parse().unwrap();
            let trace = generate::generate(rng::run_seed(seed, prop, index), prop);
            let s = sim::Sim::run(&trace, true);
            for l in &s.trace_log {
                println!("{l}");
            }
            println!("profile: {:?}", trace.profile);
            if let Some(e) = &s.harness_error {
                println!("HARNESS ERROR: {e}");
            }
            for v in &s.violations {
                println!("{} {} @{}: {}", v.prop, v.oracle, v.step, v.detail);
            }
        }
        Some("check") => {
            let prop = args[2].as_str();
            let tier = args.get(3).map(|s| s.as_str()).unwrap_or("quick");
            let code = match prop {
                "C01" | "C02" | "C03" | "C04" | "C05" | "C07" | "C08" | "C10" | "C11" | "C16" => {
                    check::check::<repl_engine::Repl>(prop, tier, "exploration", serde_json::Value::Null)
                }
                _ => families::check(prop, tier),
            };
            std::process::exit(code);
        }
        Some("worker") => {
            let p = |i: usize| -> u64 { args[i].parse().unwrap() };
            match args[2].as_str() {
                "replication" => check::worker::<repl_engine::Repl>(&args[3], p(4), p(5), p(6), p(7)),
                f => families::worker(f, &args[3], p(4), p(5), p(6), p(7)),
            }
        }
        Some("run-trace") => {
            families::run_trace(&args[2], &args[3], args.get(4).map(|s| s == "1").unwrap_or(false));
        }
        Some("shrink-trace") => {
            families::shrink_trace(&args[2], &args[3], &args[4], &args[5], &args[6]);
        }
        Some("replay") => {
            let r = match check::replay_file(&args[2]) {
                Ok(r) => r,
                Err(c) => std::process::exit(c),
            };
            let code = match r.family.as_str() {
                "replication" => check::replay::<repl_engine::Repl>(&r),
                _ => families::replay(&r),
            };
            std::process::exit(code);
        }
        Some("determinism") => {
            let n: u64 = args.get(2).and_then(|s| s.parse().ok()).unwrap_or(2000);
            let mut ok = true;
            for p in ["C01", "C04", "C06", "C07", "C08", "C09", "C10", "C11", "C12", "C16"] {
                ok &= check::determinism::<repl_engine::Repl>(p, n);
            }
            ok &= check::determinism::<fam_c06::C06Enum>("C06", 200);
            ok &= check::determinism::<fam_c09::C09Enum>("C09", n);
            ok &= check::determinism::<fam_c12::C12c>("C12", n * 5);
            ok &= check::determinism::<fam_c13::C13>("C13", n);
            ok &= check::determinism::<fam_c14::C14>("C14", n);
            ok &= check::determinism::<fam_c17::C17>("C17", n);
            if !ok {
                eprintln!("harness error: determinism self-check failed");
                std::process::exit(2);
            }
        }
        Some("c14hash") => {
            println!("{}", fam_c14::hash_of(&fam_c14::CANON));
        }
        Some("scenario") => {
            for sc in scenarios::all() {
                if sc.id == args[2] {
                    let s = sim::Sim::run_opts(&sc.trace, true, !sc.symptom_oracles.is_empty());
                    for l in &s.trace_log {
                        println!("{l}");
                    }
                    for v in &s.violations {
                        println!("{} {} @{}: {}", v.prop, v.oracle, v.step, v.detail);
                    }
                }
            }
        }
        Some("scenarios") => {
            // Runs every directed history and prints which of them violate which property.
            fn show<E: engine::Engine>(prop: &str) {
                use engine::Engine;
                for d in E::directed(prop) {
                    let o = E::run(&d.trace, false, !d.symptom_oracles.is_empty());
                    let mut kinds: Vec<String> = o.violations.iter().map(|v| format!("{}:{}", v.prop, v.oracle)).collect();
                    kinds.sort();
                    kinds.dedup();
                    println!("{} {} harness_error={:?} violations={:?}", E::FAMILY, d.id, o.harness_error, kinds);
                }
            }
            for sc in scenarios::all() {
                let s = sim::Sim::run_opts(&sc.trace, false, !sc.symptom_oracles.is_empty());
                let mut kinds: Vec<String> = s.violations.iter().map(|v| format!("{}:{}", v.prop, v.oracle)).collect();
                kinds.sort();
                kinds.dedup();
                println!("replication {} harness_error={:?} violations={:?}", sc.id, s.harness_error, kinds);
            }
            show::<fam_c12::C12c>("C12");
            show::<fam_c13::C13>("C13");
            show::<fam_c14::C14>("C14");
            show::<fam_c17::C17>("C17");
        }
        Some("shrink") => {
            // shrink <prop> <seed> <index> <viol-prop> <oracle>
            let prop = &args[2];
            let seed: u64 = args[3].parse().unwrap();
            let index: u64 = args[4].parse().unwrap();
            let trace = generate::generate(rng::run_seed(seed, prop, index), prop);
            let (t, runs) = shrink::shrink::<repl_engine::Repl>(&trace, &args[5], &args[6], 3000);
            println!("shrunk to {} steps in {runs} runs", t.steps.len());
            let s = sim::Sim::run(&t, true);
            for l in &s.trace_log {
                println!("{l}");
            }
            println!("profile: {:?}", t.profile);
            for v in &s.violations {
                println!("{} {} @{}: {}", v.prop, v.oracle, v.step, v.detail);
            }
        }
        Some("scan") => {
            let prop = &args[2];
            let seed: u64 = args[3].parse().unwrap();
            let n: u64 = args[4].parse().unwrap();
            let t0 = std::time::Instant::now();
            let mut kinds: BTreeMap<String, (u64, u64, String)> = BTreeMap::new();
            let mut stats = sim::Stats::default();
            let mut herr = 0;
            for i in 0..n {
                let trace = generate::generate(rng::run_seed(seed, prop, i), prop);
                let s = sim::Sim::run(&trace, false);
                stats.merge(&s.stats);
                if let Some(e) = s.harness_error.as_ref().or(s.decode_errors.first()) {
                    herr += 1;
                    if herr < 4 {
                        println!("HARNESS ERROR at {i}: {e}");
                    }
                }
                for v in &s.violations {
                    let k = format!("{} {}", v.prop, v.oracle);
                    let e = kinds.entry(k).or_insert((0, i, v.detail.clone()));
                    e.0 += 1;
                }
            }
            println!("{n} runs in {:?}; harness errors {herr}", t0.elapsed());
            for (k, (cnt, first, d)) in &kinds {
                println!("{k}: {cnt} (first index {first}): {d}");
            }
            println!("faults {:?}", stats.faults);
            println!("probes {:?}", stats.probes);
            println!("progress runs {} sigs {} nontrivial {}", stats.progress_runs, stats.sigs.len(), stats.nontrivial_sigs.len());
        }
        _ => eprintln!("usage"),
    }
}
