//! C09, crash-point sub-batch: a session end (client side, server side, or a server stop) injected at every
//! position of a sample of base traces, followed by at least one frame and a reconnect.

use serde_json::json;

use crate::engine::{Directed, Engine, Outcome};
use crate::generate;
use crate::repl_engine::Repl;
use crate::rng;
use crate::steps::*;

pub struct C09Enum;

const POSITIONS: u64 = 40;

impl Engine for C09Enum {
    type T = Trace;
    const FAMILY: &'static str = "c09enum";

    fn generate(_prop: &str, seed: u64) -> Trace {
        Self::generate_at("C09", seed, 0)
    }

    fn generate_at(_prop: &str, seed: u64, index: u64) -> Trace {
        let base_no = index / POSITIONS;
        let k = index % POSITIONS;
        let mut t = generate::generate_base(rng::run_seed(seed, "C09base", base_no));
        let n = t.steps.len().saturating_sub(1) as u64; // before the final Heal
        let pos = (1 + k * n / POSITIONS).min(n) as usize;
        let clients = t.profile.clients.max(1);
        let c = ((base_no + k) % clients as u64) as u8;
        let auth_custom = t.profile.app.auth == 2;
        let sf = |tick: bool| Step::ServerFrame { tick, dt_ms: 16 };
        let cf = |c: u8| Step::ClientFrame { client: c, dt_ms: 16 };
        let mut ins: Vec<Step> = vec![];
        match (base_no + k / 3) % 3 {
            0 => {
                // client end first, the server notices after a frame
                ins.push(Step::Disconnect { client: c, side: 1 });
                ins.push(cf(c));
                ins.push(sf(false));
                ins.push(Step::Disconnect { client: c, side: 0 });
                ins.push(sf(true));
                ins.push(Step::Connect { client: c });
            }
            1 => {
                // server end first; the client still processes what was in flight
                ins.push(Step::Disconnect { client: c, side: 2 });
                ins.push(sf(true));
                ins.push(Step::DeliverAll { dir: Dir::S2C, client: c, chan: Chan::Mutations });
                ins.push(Step::DeliverAll { dir: Dir::S2C, client: c, chan: Chan::Updates });
                ins.push(cf(c));
                ins.push(Step::Disconnect { client: c, side: 0 });
                ins.push(cf(c));
                ins.push(Step::Connect { client: c });
            }
            _ => {
                ins.push(Step::ServerStop);
                ins.push(cf(c));
                ins.push(sf(false));
                for x in 0..clients {
                    ins.push(Step::Disconnect { client: x, side: 0 });
                    ins.push(cf(x));
                }
                ins.push(Step::ServerStart);
                for x in 0..clients {
                    ins.push(Step::Connect { client: x });
                }
            }
        }
        if auth_custom {
            for x in 0..clients {
                ins.push(Step::Authorize { client: x });
            }
        }
        let tail = t.steps.split_off(pos);
        t.steps.extend(ins);
        t.steps.extend(tail);
        t
    }

    fn fixed_total(tier: &str) -> Option<u64> {
        let scale = std::env::var("VERIF_SCALE").ok().and_then(|s| s.parse::<f64>().ok()).unwrap_or(1.0);
        let bases = if tier == "thorough" { 6000.0 } else { 300.0 } * scale;
        Some((bases as u64).max(1) * POSITIONS)
    }

    fn run(t: &Trace, verbose: bool, no_taint: bool) -> Outcome {
        Repl::run(t, verbose, no_taint)
    }
    fn len(t: &Trace) -> usize {
        Repl::len(t)
    }
    fn without(t: &Trace, from: usize, to: usize) -> Trace {
        Repl::without(t, from, to)
    }
    fn cut_after(t: &Trace, step: usize) -> Trace {
        Repl::cut_after(t, step)
    }
    fn simplify(t: &Trace) -> Vec<Trace> {
        Repl::simplify(t)
    }
    fn directed(_prop: &str) -> Vec<Directed<Trace>> {
        vec![]
    }
    fn expected_probes() -> &'static [&'static str] {
        &["disconnect", "reconnect", "server_restart", "disconnect_with_messages_in_flight", "disconnect_with_buffered_mutations", "stop_with_messages_in_flight"]
    }
    fn rule() -> &'static str {
        "crash-point sub-batch: for each of a sample of seeded base traces without life-cycle faults, 40 evenly spaced positions each get one session end (client end first / server end first / server stop, rotating) followed by at least one frame and a reconnect; the rest of the base trace continues in the new session. One evaluation is one (base trace, position) pair; distinct_nontrivial counts distinct simulator state signatures as in the seeded batches"
    }
    fn components() -> serde_json::Value {
        json!({"real_code": ["bevy_replicon client/server reset paths, backend resources, event queues"], "simulated": ["the moment at which a session ends", "transport, clock, workload"]})
    }
}
