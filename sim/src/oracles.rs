//! Oracles. Each violation is tagged with the property it belongs to; a check arms only its own property.
//! Everything here is computed from the relay log, the probes, the harness's own records and the
//! server world (the ground truth) — never from private library state.

use std::collections::{BTreeMap, BTreeSet};

use bevy::prelude::*;
use bevy_replicon::prelude::*;

use crate::pool::*;
use crate::sim::*;
use crate::steps::Mode;
use crate::wire::{self, CompRec};

const VALUE_KINDS: [Kind; 7] = [Kind::A, Kind::B, Kind::S, Kind::Imm, Kind::Big, Kind::X, Kind::Y];

fn restarted(sim: &Sim) -> bool {
    sim.session_ctr as usize > sim.clients.len()
        || sim.stats.faults.contains_key("server_restart")
        || sim.stats.faults.contains_key("disconnect")
}

// ---------------------------------------------------------------------------------------------
// Server side: every relayed server -> client message

pub fn on_server_message(sim: &mut Sim, c: usize, ch: usize, bytes: &[u8], id: u64, ticked: bool, t: u32, _inj: bool) {
    let authorized = sim.clients[c].sess.as_ref().map(|s| s.authorized).unwrap_or(false);
    let independent = Some(ch) == sim.chans.mismatch() || sim.chans.sev_of(ch) == Some(SEv::Ind);
    if !authorized && !independent {
        sim.violate(
            "C07",
            "message_to_unauthorized",
            format!("client {c} is not authorized but was sent {} bytes on server channel {ch}", bytes.len()),
        );
    }
    // C08 (b): raw scan, independent of the decoder.
    for (slot, kind, ver) in wire::scan_tags(bytes) {
        if let Some(owner) = sim.ver_owner.get(&ver).copied() {
            if !sim.visible(c, owner) {
                sim.violate(
                    "C08",
                    "hidden_data_raw",
                    format!("message on channel {ch} to client {c} carries tag slot={slot} kind={kind} ver={ver} of an entity hidden from it"),
                );
            }
        }
    }
    if ch == Chans::UPDATES {
        let msg = match wire::decode_update(bytes, &sim.fns) {
            Ok(m) => m,
            Err(e) => {
                sim.decode_errors.push(format!("update message does not decode: {e} {bytes:?}"));
                return;
            }
        };
        if sim.verbose {
            let ch: Vec<String> = msg.changes.iter().map(|(e, c)| format!("{e:#x}:{:?}", c.iter().map(|r| (r.kind, &r.val)).collect::<Vec<_>>())).collect();
            sim.log(format!("    server -> client {c}: update tick {} mappings {:x?} despawns {:x?} removals {:x?} changes {ch:?}", msg.tick, msg.mappings, msg.despawns, msg.removals));
        }
        if !ticked || msg.tick != t {
            sim.violate("C03", "update_outside_tick", format!("update message with tick {} sent in a frame with tick {t} (ticked={ticked})", msg.tick));
        }
        for (e, _) in &msg.changes {
            if !sim.visible(c, *e) {
                sim.violate("C08", "hidden_entity_in_update", format!("update message to client {c} contains changes of hidden entity {e:#x}"));
            }
        }
        // Stale-reference taint (known finding F17): despawns first, then re-sent components.
        let mut taints: Vec<((u64, Kind), u32)> = vec![];
        // A pre-spawn mapping gives the target a new client identity as well: references sent before
        // it keep pointing at the placeholder the client had reserved (same family as F17).
        let remapped: Vec<u64> = msg.mappings.iter().map(|(s, _)| *s).collect();
        // (Also for targets the client only knew as a placeholder: the despawn record removes the
        // placeholder mapping, and a later re-spawn of the target gets a new client entity.)
        for d in msg.despawns.iter().chain(remapped.iter()) {
            for s in sim.slots.iter().flatten() {
                let comps = read_comps(sim.server.world(), *s);
                for k in [Kind::Ref, Kind::Link] {
                    if comps.get(&k) == Some(&Val::Ent(*d)) {
                        taints.push(((s.to_bits(), k), u32::MAX));
                    }
                }
            }
        }
        for (e, comps) in &msg.changes {
            for r in comps {
                if r.kind.is_entity() {
                    taints.push(((*e, r.kind), msg.tick));
                }
            }
        }
        let first_check = {
            let sess = sim.clients[c].sess.as_mut().unwrap();
            for (k, v) in taints {
                if v == u32::MAX {
                    // A re-send that left before this identity change cannot be relied on to repair it.
                    for list in sess.heal_pending.values_mut() {
                        list.retain(|x| *x != k);
                    }
                }
                sess.ent_taint.insert(k, v);
            }
            for (e, comps) in &msg.changes {
                for r in comps {
                    if r.kind == Kind::O {
                        if let Val::Ver(v) = r.val {
                            sess.o_sent.entry(*e).or_default().push((msg.tick, v));
                        }
                    }
                }
            }
            sess.upd_sent.push((msg.tick, id));
            if msg.tick == 0 {
                sess.tick0 = true;
            }
            let first = !sess.first_update_checked;
            sess.first_update_checked = true;
            first
        };
        if first_check {
            if let Some(snap) = sim.snaps.get(&t).cloned() {
                if let Some(vis) = snap.vis[c].clone() {
                    let got: BTreeMap<u64, &Vec<CompRec>> = msg.changes.iter().map(|(e, c)| (*e, c)).collect();
                    let mut problems = vec![];
                    for e in &vis {
                        match got.get(e) {
                            None => problems.push(format!("entity {e:#x} missing")),
                            Some(comps) => {
                                for (k, val) in &snap.ents[e] {
                                    if !comps.iter().any(|r| r.kind == *k && (r.val == *val || k.is_entity())) {
                                        problems.push(format!("entity {e:#x} lacks {k:?} = {val:?}"));
                                    }
                                }
                            }
                        }
                    }
                    if !problems.is_empty() {
                        let (after_crash, late_auth) = {
                            let s = sim.clients[c].sess.as_ref().unwrap();
                            (s.after_crash, sim.prof.app.auth != 1)
                        };
                        let detail = format!("first update message of the session of client {c} (tick {t}) does not carry the complete visible state: {}", problems.join(", "));
                        if after_crash {
                            sim.violate("C09", "first_update_incomplete", detail.clone());
                        }
                        if late_auth || !after_crash {
                            sim.violate("C07", "first_update_incomplete", detail);
                        }
                    }
                }
            }
        }
        sim.clients[c].sess.as_mut().unwrap().upd_msgs.push(msg);
    } else if ch == Chans::MUTATIONS {
        let msg = match wire::decode_mutate(bytes, &sim.fns, sim.prof.app.track) {
            Ok(m) => m,
            Err(e) => {
                sim.decode_errors.push(format!("mutate message does not decode: {e} {bytes:?}"));
                return;
            }
        };
        if sim.verbose {
            let ch: Vec<String> = msg.entities.iter().map(|(e, c)| format!("{e:#x}:{:?}", c.iter().map(|r| (r.kind, &r.val)).collect::<Vec<_>>())).collect();
            sim.log(format!("    server -> client {c}: mutate tick {} (update tick {}, index {}) {ch:?}", msg.tick, msg.update_tick, msg.index));
        }
        if !ticked || msg.tick != t {
            sim.violate("C02", "mutate_outside_tick", format!("mutate message with tick {} sent in a frame with tick {t}", msg.tick));
        }
        for (e, _) in &msg.entities {
            if !sim.visible(c, *e) {
                sim.violate("C08", "hidden_entity_in_mutate", format!("mutate message to client {c} contains hidden entity {e:#x}"));
            }
        }
        let now = sim.now_ms;
        let sess = sim.clients[c].sess.as_mut().unwrap();
        // The named update tick must not lie in the future (an update message that was never sent) and
        // must cover every update message that touched one of the message's entities.
        let expect_ut = sess.upd_sent.last().map(|(t, _)| *t).unwrap_or(0);
        let needed = sess
            .upd_msgs
            .iter()
            .filter(|u| msg.entities.iter().any(|(e, _)| u.changes.iter().any(|(x, _)| x == e) || u.removals.iter().any(|(x, _)| x == e)))
            .map(|u| u.tick)
            .max()
            .unwrap_or(0);
        let bad_ut = msg.update_tick > expect_ut || msg.update_tick < needed;
        let cells: Vec<(u64, Kind)> = msg.entities.iter().flat_map(|(e, comps)| comps.iter().filter(|r| r.kind.is_entity()).map(move |r| (*e, r.kind))).collect();
        if !cells.is_empty() {
            sess.frame_refs.push((id, msg.tick, cells));
        }
        sess.mut_by_index.insert(msg.index, id);
        sess.tick_msgs.entry(msg.tick).or_default().push(id);
        let meta = MutMeta {
            msg_id: id,
            index: msg.index,
            tick: msg.tick,
            update_tick: msg.update_tick,
            count: msg.count,
            ents: msg.entities.clone(),
            len: bytes.len(),
            sent_ms: now,
            ack_delivered_ms: None,
            ack_processed: false,
            delivered: false,
            dropped: false,
            applied: false,
        };
        sess.muts.insert(id, meta);
        if bad_ut {
            sim.violate(
                "C02",
                "mutate_update_tick",
                format!("mutate message for tick {} names update tick {}, but the last update message sent to client {c} was {expect_ut} and its entities were last touched by the update message of tick {needed}", msg.tick, msg.update_tick),
            );
        }
        if msg.entities.is_empty() && !sim.prof.app.track {
            // Not a violation by itself: when a message ends exactly at a multiple of the maximum size an
            // empty group chunk is packed into a message of its own. An idle server sending such
            // messages is caught by the silence oracle in quiescence.
            sim.stats.probe("empty_mutate_message_without_tracking");
        }
    } else if Some(ch) == sim.chans.mismatch() {
        sim.clients[c].sess.as_mut().unwrap().mismatch_sent += 1;
    } else if let Some(kind) = sim.chans.sev_of(ch) {
        let m = match wire::decode_sev(bytes, kind) {
            Ok(m) => m,
            Err(e) => {
                sim.decode_errors.push(format!("server event {kind:?} does not decode: {e} {bytes:?}"));
                return;
            }
        };
        let sid = sim.clients[c].sess.as_ref().unwrap().id;
        let rec = sim.sev.iter().find(|e| e.seq == m.seq).cloned();
        match rec {
            None => sim.violate("C05", "unknown_event_on_wire", format!("event seq {} on the wire was never emitted", m.seq)),
            Some(rec) => {
                let ok = rec.recipients.as_ref().map(|r| r.contains(&(c, sid))).unwrap_or(false);
                if !ok {
                    let prop = if !authorized { "C07" } else { "C05" };
                    sim.violate(
                        prop,
                        "sent_to_non_recipient",
                        format!("event {kind:?} seq {} (mode {:?}, emitted at step {}) was sent to client {c} session {sid}, intended recipients {:?}", m.seq, rec.mode, rec.step, rec.recipients),
                    );
                    if prop == "C07" {
                        sim.violate("C05", "sent_to_non_recipient", format!("event {kind:?} seq {} sent to unauthorized client {c}", m.seq));
                    }
                }
            }
        }
        let sess = sim.clients[c].sess.as_mut().unwrap();
        let upd_before = sess.upd_sent.len();
        let already = sess.sev_sent.get(&m.seq).map(|v| v.len()).unwrap_or(0);
        sess.sev_sent.entry(m.seq).or_default().push(SentEv {
            kind,
            msg_id: id,
            flush_tick: t,
            upd_before,
            fresh: true,
            stamp: m.tick,
            delivered: false,
            dropped: false,
            due_u: None,
            due_resolvable: None,
        });
        if already > 0 {
            sim.violate("C05", "event_sent_twice", format!("event {kind:?} seq {} was put on the wire for client {c} {} times", m.seq, already + 1));
        }
    }
}

// ---------------------------------------------------------------------------------------------
// After every server frame

pub fn after_server_frame(sim: &mut Sim, ticked: bool, t: u32, injected: bool) {
    // References carried by this frame's mutate messages, judged after this frame's update message.
    for cl in sim.clients.iter_mut() {
        if let Some(sess) = cl.sess.as_mut() {
            for (id, tick, cells) in std::mem::take(&mut sess.frame_refs) {
                for cell in cells {
                    if sess.ent_taint.get(&cell) == Some(&u32::MAX) {
                        // The target changed its client identity (F17) and the reference is (re-)sent on the
                        // unreliable channel in or after the tick of that change: that repairs it only if
                        // this very message gets written for the entity.
                        sess.heal_pending.entry(id).or_default().push(cell);
                    } else {
                        sess.ent_taint.insert(cell, tick);
                    }
                }
            }
        }
    }
    // C04: "replicated up to the tick in which the event was sent" includes the update message of the very
    // frame that flushed the event, wherever the library placed it in that frame's output.
    for cl in sim.clients.iter_mut() {
        if let Some(sess) = cl.sess.as_mut() {
            let n = sess.upd_sent.len();
            for e in sess.sev_sent.values_mut().flatten().filter(|e| e.fresh) {
                e.fresh = false;
                e.upd_before = n;
            }
        }
    }
    // C08: the visibility query reports the most recent setting of every live entity.
    if sim.prof.app.vis != 0 {
        for c in 0..sim.clients.len() {
            let Some(ce) = sim.clients[c].sess.as_ref().and_then(|s| s.ce) else { continue };
            let Some(v) = sim.server.world().get::<ClientVisibility>(ce) else { continue };
            let mut bad = vec![];
            for s in sim.slots.iter().flatten() {
                let lib = v.is_visible(*s);
                let rec = sim.visible(c, s.to_bits());
                if lib != rec {
                    bad.push((s.to_bits(), lib, rec));
                }
            }
            for (e, lib, rec) in bad {
                sim.violate("C08", "is_visible_mismatch", format!("ClientVisibility::is_visible({e:#x}) = {lib} for client {c}, most recent setting is {rec}"));
            }
        }
    }
    // C07: a client whose protocol differs is never authorised, is notified and asked to disconnect.
    // ... and a client with the same protocol whose hash reached the server is authorised by the frame that
    // processes it, whatever other clients sent (C14 states the equivalence, C06 the "whatever").
    for c in 0..sim.clients.len() {
        if sim.prof.wrong_proto & (1 << c) != 0 || sim.prof.app.auth != 0 || sim.clients[c].ever_injected {
            continue;
        }
        let Some(s) = sim.clients[c].sess.as_ref() else { continue };
        let Some(f) = s.hash_delivered_frame else { continue };
        if sim.server_frames > f + 1 && s.ce.is_some() && !s.authorized && !s.disconnect_requested {
            let d = format!("client {c} presented the server's own protocol hash {} server frames ago and is still not authorized", sim.server_frames - f);
            if sim.stats.faults.contains_key("byzantine_bytes") {
                sim.violate("C06", "honest_client_not_authorized", format!("[after malformed input from another client] {d}"));
            }
            sim.violate("C14", "matching_client_not_authorized", d);
        }
    }
    for c in 0..sim.clients.len() {
        if sim.prof.wrong_proto & (1 << c) == 0 || sim.prof.app.auth != 0 {
            continue;
        }
        let Some(s) = sim.clients[c].sess.as_ref() else { continue };
        let (auth, f, open, req, mm) = (s.authorized, s.hash_delivered_frame, s.ce.is_some(), s.disconnect_requested, s.mismatch_sent);
        if auth {
            sim.violate("C07", "mismatching_client_authorized", format!("client {c} was built with a different protocol but got authorized"));
            continue;
        }
        if let Some(f) = f {
            // The frame after delivery processes the hash; its requests are handled after this oracle ran.
            if sim.server_frames > f + 1 && open && !req {
                sim.violate("C07", "disconnect_not_requested", format!("client {c} presented a different protocol hash {} server frames ago and no disconnect was requested", sim.server_frames - f));
            }
            if sim.server_frames > f && mm == 0 && (open || req) {
                sim.violate("C07", "mismatch_not_notified", format!("client {c} presented a different protocol hash but no ProtocolMismatch was sent to it"));
            }
        }
    }
    // C06: allocation out of proportion in a frame that processed injected bytes.
    if injected {
        // Largest single request ever seen in these small worlds is below 32 KiB (measured, reported as a
        // probe histogram); the floor leaves a factor of four.
        let bound = (128usize << 10).max(8 * sim.max_alloc_clean).max(64 * sim.inject_len);
        if sim.max_alloc_inject > bound {
            sim.violate("C06", "huge_allocation", format!("server frame with injected input requested {} bytes at once (bound {bound})", sim.max_alloc_inject));
        }
    }
    if !ticked {
        return;
    }
    let Some(snap) = sim.snaps.get(&t).cloned() else { return };
    for c in 0..sim.clients.len() {
        if let (Some(vis), Some(sess)) = (snap.vis[c].as_ref(), sim.clients[c].sess.as_mut()) {
            if sess.initial.is_none() {
                sess.initial = Some(vis.clone());
            }
        }
    }
    let period = sim.prof.app.period.max(1);
    let mut split_probe = 0u64;
    for c in 0..sim.clients.len() {
        let Some(vis) = snap.vis[c].clone() else { continue };
        let Some(sess) = sim.clients[c].sess.as_ref() else { continue };
        // What did this tick's traffic to c contain?
        let upd = sess.upd_msgs.last().filter(|m| m.tick == t && sess.upd_sent.last().map(|(x, _)| *x) == Some(t));
        let mut_ids = sess.tick_msgs.get(&t).cloned().unwrap_or_default();
        let muts: Vec<&MutMeta> = mut_ids.iter().filter_map(|i| sess.muts.get(i)).collect();
        let mut touched: BTreeSet<u64> = BTreeSet::new();
        let mut carried: BTreeSet<(u64, Kind, Val)> = BTreeSet::new();
        if let Some(u) = upd {
            for (e, comps) in &u.changes {
                touched.insert(*e);
                for r in comps {
                    carried.insert((*e, r.kind, r.val));
                }
            }
            for (e, _) in &u.removals {
                touched.insert(*e);
            }
        }
        for m in &muts {
            for (e, comps) in &m.ents {
                touched.insert(*e);
                for r in comps {
                    carried.insert((*e, r.kind, r.val));
                }
            }
        }
        // Known finding F4: a periodic component with an unconfirmed value while other traffic
        // for the entity is sent on an off-period tick.
        let mut new_taints = vec![];
        if t % period != 0 {
            for e in &vis {
                if let Some(Val::Ver(v)) = snap.ents[e].get(&Kind::P) {
                    if touched.contains(e) && !confirmed(sess, *e, Kind::P, Val::Ver(*v)) && !carried.contains(&(*e, Kind::P, Val::Ver(*v))) {
                        new_taints.push((*e, *v));
                    }
                }
            }
        }
        // C11 (i): an unacknowledged value is part of every tick's traffic.
        let mut viol = vec![];
        for e in &vis {
            // Only entities the server has already sent to this client.
            let known = sess.upd_msgs.iter().any(|m| m.changes.iter().any(|(x, _)| x == e));
            if !known {
                continue;
            }
            for k in VALUE_KINDS {
                let Some(val) = snap.ents[e].get(&k) else { continue };
                if carried.contains(&(*e, k, *val)) {
                    continue;
                }
                if !confirmed(sess, *e, k, *val) && !in_grey_zone(sess, *e, k, *val, sim.now_ms, sim.prof.app.timeout_ms) {
                    viol.push(format!("tick {t}: value {val:?} of {k:?} on {e:#x} is not acknowledged by client {c} but absent from this tick's messages"));
                }
            }
        }
        // C11 (ii): an acknowledged value is not re-sent in mutate messages.
        for m in &muts {
            for (e, comps) in &m.ents {
                for r in comps {
                    if !VALUE_KINDS.contains(&r.kind) {
                        continue;
                    }
                    if acked_in_time(sess, *e, r.kind, r.val, sim.prof.app.timeout_ms, m.msg_id) {
                        viol.push(format!("tick {t}: value {:?} of {:?} on {e:#x} was acknowledged by client {c} in time but is sent again in a mutate message", r.val, r.kind));
                    }
                }
            }
        }
        if muts.len() >= 2 {
            split_probe += 1;
        }
        // C10: packing of this tick's mutate messages.
        let c10 = check_packing(sim, c, &muts, &snap, t);
        let sess = sim.clients[c].sess.as_mut().unwrap();
        for x in new_taints {
            sess.p_taint.insert(x.0 ^ ((x.1 as u64) << 40));
        }
        for v in viol {
            sim.violate("C11", "resend_rule", v);
        }
        for v in c10 {
            sim.violate("C10", "packing", v);
        }
    }
    if split_probe > 0 {
        *sim.stats.probes.entry("message_split_2plus".into()).or_insert(0) += split_probe;
    }
}

/// The client is known to have received this value: it travelled in an update message (reliable) or
/// in a mutate message whose acknowledgement the server has processed.
fn confirmed(sess: &Session, e: u64, k: Kind, val: Val) -> bool {
    let has = |comps: &Vec<CompRec>| comps.iter().any(|r| r.kind == k && r.val == val);
    sess.upd_msgs.iter().any(|m| m.changes.iter().any(|(x, comps)| *x == e && has(comps)))
        || sess.muts.values().any(|m| m.ack_processed && m.ents.iter().any(|(x, comps)| *x == e && has(comps)))
}

/// An ack arrived, but later than `timeout` after the send: the server may or may not still know the
/// message, either outcome is legal.
fn in_grey_zone(sess: &Session, e: u64, k: Kind, val: Val, _now: u64, timeout: u64) -> bool {
    let has = |comps: &Vec<CompRec>| comps.iter().any(|r| r.kind == k && r.val == val);
    sess.muts.values().any(|m| {
        m.ents.iter().any(|(x, comps)| *x == e && has(comps))
            && m.ack_delivered_ms.map(|a| a.saturating_sub(m.sent_ms) >= timeout).unwrap_or(false)
    })
}

/// Some message (other than `except`) containing the value was acknowledged, the ack was processed
/// by the server, and it arrived within the guaranteed lifetime of the bookkeeping entry.
fn acked_in_time(sess: &Session, e: u64, k: Kind, val: Val, timeout: u64, except: u64) -> bool {
    let has = |comps: &Vec<CompRec>| comps.iter().any(|r| r.kind == k && r.val == val);
    sess.muts.values().any(|m| {
        m.msg_id != except
            && m.ack_processed
            && m.ents.iter().any(|(x, comps)| *x == e && has(comps))
            && m.ack_delivered_ms.map(|a| a.saturating_sub(m.sent_ms) < timeout).unwrap_or(false)
    })
}

fn check_packing(sim: &Sim, c: usize, muts: &[&MutMeta], snap: &Snap, t: u32) -> Vec<String> {
    let mut out = vec![];
    if muts.is_empty() {
        return out;
    }
    let max_size = sim.prof.max_size[c.min(2)].max(16);
    // Every entity in exactly one message.
    let mut seen: BTreeMap<u64, u64> = BTreeMap::new();
    for m in muts {
        for (e, _) in &m.ents {
            if let Some(prev) = seen.insert(*e, m.msg_id) {
                out.push(format!("tick {t}: entity {e:#x} appears in mutate messages {prev} and {} for client {c}", m.msg_id));
            }
        }
    }
    // Groups in one message.
    if sim.prof.app.sync_related {
        for g in &snap.groups {
            let ids: BTreeSet<u64> = g.iter().filter_map(|e| seen.get(e).copied()).collect();
            if ids.len() > 1 {
                out.push(format!("tick {t}: related group {g:x?} is split over mutate messages {ids:?} for client {c}"));
            }
        }
    }
    if let Some(n) = muts[0].count {
        if n != muts.len() {
            out.push(format!("tick {t}: mutate messages announce {n} messages but {} were sent to client {c}", muts.len()));
        }
    }
    // Size rules. Chunk = an entity block, or all blocks of one related group.
    let mut chunk_of: BTreeMap<u64, usize> = BTreeMap::new();
    if sim.prof.app.sync_related {
        for (i, g) in snap.groups.iter().enumerate() {
            for e in g {
                chunk_of.insert(*e, i);
            }
        }
    }
    let mut chunks: BTreeMap<(u8, u64), usize> = BTreeMap::new();
    let mut total_body = 0usize;
    for m in muts {
        let sizes = block_sizes(m);
        for ((e, _), sz) in m.ents.iter().zip(sizes) {
            let key = match chunk_of.get(e) {
                Some(g) => (0u8, *g as u64),
                None => (1u8, *e),
            };
            *chunks.entry(key).or_insert(0) += sz;
            total_body += sz;
        }
    }
    // Header as the library must assume it while packing: with tracking the count field is
    // reserved at its maximum width (10 bytes) because the number of messages is not known yet.
    let m0 = muts[0];
    let header = wire::varint_len(m0.update_tick as u64) + wire::varint_len(m0.tick as u64) + 2 + if m0.count.is_some() { 10 } else { 0 };
    let all_fit = chunks.values().all(|s| header + s <= max_size);
    if all_fit {
        for m in muts {
            if m.len > max_size {
                out.push(format!("tick {t}: mutate message of {} bytes exceeds max size {max_size} of client {c} although every chunk fits (chunks {:?}, header {header})", m.len, chunks.values().collect::<Vec<_>>()));
            }
        }
    }
    if header + total_body <= max_size && muts.len() > 1 {
        out.push(format!("tick {t}: {} mutate messages sent to client {c} although everything fits into one ({} + {} <= {max_size})", muts.len(), header, total_body));
    }
    out
}

fn block_sizes(m: &MutMeta) -> Vec<usize> {
    // Re-derive block sizes from the decoded content (entity id + size prefix + data).
    m.ents
        .iter()
        .map(|(e, comps)| {
            let index = e & 0xffff_ffff;
            let generation = e >> 32;
            let ent = if generation > 1 {
                wire::varint_len((index << 1) | 1) + wire::varint_len(generation - 1)
            } else {
                wire::varint_len(index << 1)
            };
            let data: usize = comps
                .iter()
                .map(|r| {
                    1 + match r.val {
                        Val::Ver(_) => TAG_LEN,
                        Val::Big(_, l) => TAG_LEN + wire::varint_len(l as u64) + l as usize,
                        Val::Ent(b) => wire::varint_len(b),
                    }
                })
                .sum();
            ent + wire::varint_len(data as u64) + data
        })
        .collect()
}

// ---------------------------------------------------------------------------------------------
// Client -> server messages

pub fn on_client_message(sim: &mut Sim, c: usize, ch: usize, bytes: &[u8]) {
    let up = sim.clients[c].sess.as_ref().map(|s| s.client_up).unwrap_or(false);
    if !up {
        sim.violate("C13", "sent_while_disconnected", format!("client {c} put {} bytes on channel {ch} while not connected", bytes.len()));
        return;
    }
    if let Some(k) = sim.chans.cev_of(ch) {
        match wire::decode_cev(bytes, k) {
            Ok(m) => {
                let ce = sim.clients[c].sess.as_ref().and_then(|s| s.ce).map(|e| e.to_bits());
                let sid = sim.clients[c].sess.as_ref().map(|s| s.id);
                // Expected translation of the entity argument at send time.
                let map: Vec<(u64, u64)> = sim.clients[c]
                    .app
                    .world()
                    .get_resource::<bevy_replicon::shared::server_entity_map::ServerEntityMap>()
                    .map(|m| m.to_server().iter().map(|(c, s)| (c.to_bits(), s.to_bits())).collect())
                    .unwrap_or_default();
                let mut viol = None;
                if let Some(e) = sim.cev.iter_mut().find(|e| e.seq == m.seq) {
                    e.on_wire += 1;
                    e.wire_ce = ce;
                    if e.on_wire > 1 {
                        viol = Some(("C05", "client_event_sent_twice", format!("client event {k:?} seq {} was put on the wire {} times", m.seq, e.on_wire)));
                    }
                    if e.session != sid {
                        viol = Some(("C09", "old_session_client_event", format!("client event seq {} written in session {:?} was sent in session {sid:?}", m.seq, e.session)));
                    }
                    let wire_ent = match k {
                        CEv::Map => m.ent,
                        CEv::Trig => m.targets.first().copied(),
                        CEv::Ord | CEv::Unord | CEv::Unrel => None,
                    };
                    if let Some(local) = e.ent {
                        let expect = map.iter().find(|(c, _)| *c == local).map(|(_, s)| *s);
                        e.expected_server_ent = expect;
                        if wire_ent != expect {
                            viol = Some(("C05", "client_event_entity_translation", format!("client event seq {} carries entity {wire_ent:x?}, client entity {local:#x} maps to {expect:x?}", m.seq)));
                        }
                    }
                } else {
                    viol = Some(("C05", "unknown_client_event_on_wire", format!("client event seq {} on the wire was never emitted", m.seq)));
                }
                if let Some((p, o, d)) = viol {
                    sim.violate(p, o, d);
                }
            }
            Err(e) => sim.decode_errors.push(format!("client event does not decode: {e}")),
        }
    }
}

// ---------------------------------------------------------------------------------------------
// After every client frame

pub fn after_client_frame(sim: &mut Sim, c: usize) {
    let (sev, replicated, mtr) = {
        let mut p = sim.clients[c].app.world_mut().resource_mut::<Probe>();
        (std::mem::take(&mut p.sev), std::mem::take(&mut p.replicated), std::mem::take(&mut p.mutate_tick_received))
    };
    // Local handling on a client app (listen-server style apps are checked by the C13 scenario set).
    let local_cev = std::mem::take(&mut sim.clients[c].app.world_mut().resource_mut::<Probe>().cev);
    let _ = local_cev;
    if sim.verbose && !sev.is_empty() {
        sim.trace_log.push(format!("    client {c} observed {:?}", sev.iter().map(|o| (o.kind, o.seq, o.update_tick)).collect::<Vec<_>>()));
    }
    let up = sim.clients[c].sess.as_ref().map(|s| s.client_up).unwrap_or(false);
    if !up {
        if !sev.is_empty() {
            sim.violate("C09", "event_after_disconnect", format!("client {c} observed {} server event(s) while disconnected", sev.len()));
        }
        return;
    }
    let (u, held, tc, ts) = client_view(&sim.clients[c].app);
    let mut v: Vec<(&'static str, &'static str, String)> = vec![];
    let mut f20_hits = 0u64;
    let mut conf_commit: Option<(BTreeMap<u64, BTreeSet<u32>>, BTreeSet<u64>, BTreeMap<u64, Vec<(u32, u32)>>)> = None;
    let mut sim_probe_old = 0u64;
    let mut lost_track = 0u64;
    let mut f20_healed: Vec<(u64, Kind)> = vec![];
    let sid = sim.clients[c].sess.as_ref().unwrap().id;
    let authorized = sim.clients[c].sess.as_ref().unwrap().authorized;
    let _ = authorized;

    // ---- bookkeeping: which delivered mutate messages are applied now
    let mut newly_applied: Vec<u64> = vec![];
    {
        let sess = sim.clients[c].sess.as_mut().unwrap();
        let applied_any = sess.upd_delivered > 0;
        for m in sess.muts.values_mut() {
            if m.delivered && !m.applied && (m.update_tick <= u) && (applied_any || m.update_tick == 0) {
                m.applied = true;
                newly_applied.push(m.msg_id);
            }
        }
        for id in &newly_applied {
            if let Some(list) = sess.heal_pending.remove(id) {
                let tick = sess.muts[id].tick;
                for (e, k) in list {
                    // Written for this entity iff the entity's confirmed tick is now this message's tick.
                    if held.get(&e).map(|h| h.3) == Some(tick) && sess.ent_taint.get(&(e, k)) == Some(&u32::MAX) {
                        sess.ent_taint.insert((e, k), tick);
                    }
                }
            }
        }
        let buffered = sess.muts.values().filter(|m| m.delivered && !m.applied).count();
        if buffered > 0 {
            sim.stats.probe("mutate_buffered");
        }
        if buffered >= 2 {
            sim.stats.probe("two_mutates_buffered");
        }
    }

    let sess = sim.clients[c].sess.as_ref().unwrap();
    // ---- C03: structure equals the server's at the reported update tick
    if u < sess.last_u {
        v.push(("C03", "update_tick_backwards", format!("client {c}: ServerUpdateTick went from {} to {u}", sess.last_u)));
    }
    let applied_any = sess.upd_delivered > 0;
    let expected: Option<BTreeMap<u64, &Comps>> = if !applied_any {
        Some(BTreeMap::new())
    } else if !sess.upd_sent.iter().take(sess.upd_delivered).any(|(t, _)| *t == u) {
        v.push(("C03", "update_tick_unknown", format!("client {c} reports update tick {u}, delivered update messages had ticks {:?}", sess.upd_sent.iter().take(sess.upd_delivered).map(|x| x.0).collect::<Vec<_>>())));
        None
    } else {
        match sim.snaps.get(&u) {
            Some(s) => match &s.vis[c] {
                Some(vis) => Some(vis.iter().map(|e| (*e, &s.ents[e])).collect()),
                None => None,
            },
            None => None,
        }
    };
    // Events that became due in this frame: was their entity reference resolvable at this moment?
    let mut due_now: Vec<(u32, u64, Option<bool>)> = vec![];
    for (seq, list) in sess.sev_sent.iter() {
        for e in list.iter() {
            // Due by the harness's own record: every update message sent to this client up to the frame
            // that flushed the event has been handed to it (not by the tick the library stamped on it).
            if e.delivered && e.due_u.is_none() && !e.fresh && sess.upd_delivered >= e.upd_before {
                let target = sim.sev.iter().find(|x| x.seq == *seq).and_then(|x| x.target);
                let res = target.map(|t| expected.as_ref().map(|x| x.contains_key(&t)).unwrap_or(false));
                due_now.push((*seq, e.msg_id, res));
            }
        }
    }
    if let Some(exp) = &expected {
        for (se, (cc, marker, comps, lt)) in &held {
            match exp.get(se) {
                None => {
                    v.push(("C03", "extra_entity", format!("client {c} holds server entity {se:#x} (client {cc:#x}, confirmed {lt}) which was not replicated to it at update tick {u}")));
                    // Replicated at that tick but hidden from this client: losing visibility must remove it.
                    if sim.snaps.get(&u).map(|s| s.ents.contains_key(se)).unwrap_or(false) {
                        v.push(("C08", "hidden_entity_kept", format!("client {c} still holds entity {se:#x} at update tick {u} although it was hidden from it at that tick")));
                    }
                    // Hidden from this client and despawned before the next tick: either way it has to go.
                    if sess.hidden_at_despawn.contains(se) {
                        v.push(("C08", "hidden_entity_kept", format!("client {c} still holds entity {se:#x} at update tick {u} although it was hidden from it (and despawned while hidden)")));
                    }
                }
                Some(sc) => {
                    if !*marker {
                        v.push(("C03", "marker_missing", format!("client {c}: entity {se:#x} -> {cc:#x} has no Replicated marker at update tick {u}")));
                    }
                    for k in ALL_KINDS {
                        if sc.contains_key(&k) != comps.contains_key(&k) {
                            if k == Kind::Link && !sim.no_taint && link_tainted(sess, *se, *lt) {
                                continue;
                            }
                            // A relationship to an entity the client does not hold is a don't-care: the
                            // client gets a placeholder, or Bevy removes the relationship again.
                            if k == Kind::Link {
                                if let Some(Val::Ent(t)) = sc.get(&k) {
                                    if !exp.contains_key(t) {
                                        continue;
                                    }
                                }
                            }
                            v.push(("C03", "component_presence", format!("client {c}: entity {se:#x} at update tick {u}: {k:?} present on server={} on client={}", sc.contains_key(&k), comps.contains_key(&k))));
                            if sess.vis.get(se) == Some(&true) && sc.contains_key(&k) {
                                v.push(("C08", "visible_entity_incomplete", format!("client {c}: entity {se:#x} was made visible to it but lacks {k:?} at update tick {u}")));
                            }
                        }
                    }
                }
            }
        }
        for se in exp.keys() {
            if !held.contains_key(se) {
                v.push(("C03", "missing_entity", format!("client {c} lacks server entity {se:#x} replicated to it at update tick {u}")));
                if sess.premap.contains_key(se) {
                    v.push(("C16", "prespawn_target_missing", format!("client {c}: server entity {se:#x} was mapped to a pre-spawned entity and is replicated to the client at update tick {u}, but the client holds no entity for it")));
                }
                if sess.vis.contains_key(se) {
                    v.push(("C08", "visible_entity_missing", format!("client {c} lacks entity {se:#x} at update tick {u} although it was made visible to it")));
                }
            }
        }
    }
    // map consistency
    {
        let a: BTreeSet<(u64, u64)> = tc.iter().copied().collect();
        let b: BTreeSet<(u64, u64)> = ts.iter().map(|(c, s)| (*s, *c)).collect();
        if a != b {
            v.push(("C03", "entity_map_inconsistent", format!("client {c}: to_client {a:x?} and to_server {b:x?} are not inverse")));
        }
        let w = sim.clients[c].app.world();
        for (s, cc) in &tc {
            if w.get_entity(Entity::from_bits(*cc)).is_err() {
                v.push(("C03", "mapped_entity_dead", format!("client {c}: server entity {s:#x} maps to dead client entity {cc:#x}")));
            }
        }
    }
    // zombies: entities with the marker or a confirmation history that the map does not know
    {
        let mapped: BTreeSet<u64> = tc.iter().map(|(_, c)| *c).collect();
        let w = sim.clients[c].app.world();
        for r in w.iter_entities() {
            let e = r.id();
            let (m, h) = (r.contains::<Replicated>(), r.contains::<bevy_replicon::client::confirm_history::ConfirmHistory>());
            if (m || h) && !mapped.contains(&e.to_bits()) {
                v.push(("C03", "orphan_entity", format!("client {c}: entity {:#x} has replication state but is not in the entity map", e.to_bits())));
            }
        }
    }

    // ---- C02: values equal the server's at the confirmed tick
    for (se, (cc, _marker, comps, lt)) in &held {
        if let Some(prev) = sess.last_conf.get(cc) {
            if lt < prev {
                v.push(("C02", "confirmed_tick_backwards", format!("client {c}: entity {se:#x} confirmed tick went from {prev} to {lt}")));
            }
        }
        let Some(snap) = sim.snaps.get(lt) else {
            v.push(("C02", "confirmed_tick_unknown", format!("client {c}: entity {se:#x} reports confirmed tick {lt} at which the server did not replicate")));
            continue;
        };
        let visible_then = snap.vis[c].as_ref().map(|s| s.contains(se)).unwrap_or(false);
        let Some(sc) = snap.ents.get(se).filter(|_| visible_then) else {
            v.push(("C02", "confirmed_tick_not_replicated", format!("client {c}: entity {se:#x} reports confirmed tick {lt} at which it was not replicated to this client")));
            continue;
        };
        for k in VALUE_KINDS {
            if let (Some(a), Some(b)) = (sc.get(&k), comps.get(&k)) {
                let client_ver = match b {
                    Val::Ver(v) | Val::Big(v, _) => *v,
                    Val::Ent(_) => 0,
                };
                let dropped = sess.f20_cells.get(&(*se, k)).copied();
                if dropped.map(|d| client_ver >= d).unwrap_or(false) {
                    // The client holds the write that the tick-0 finding (F20) had dropped, or a later one.
                    f20_healed.push((*se, k));
                }
                if a == b {
                } else if !sim.no_taint && dropped.map(|d| client_ver < d).unwrap_or(false) {
                    f20_hits += 1;
                } else if a != b {
                    if newly_applied.iter().any(|id| sess.muts[id].ents.iter().any(|(e, _)| e == se)) {
                        v.push(("C10", "entity_partially_updated", format!("client {c}: entity {se:#x} was confirmed for tick {lt} by a mutate message applied in this frame but {k:?} = {b:?} instead of {a:?}")));
                    }
                    v.push(("C02", "value_at_confirmed_tick", format!("client {c}: entity {se:#x} {k:?} = {b:?} but the server had {a:?} at its confirmed tick {lt} (update tick {u})")));
                }
            }
        }
        // Periodic: never a value the server did not have at or before the confirmed tick.
        if let Some(Val::Ver(cv)) = comps.get(&Kind::P) {
            let ok = sim.snaps.range(..=*lt).any(|(_, s)| s.ents.get(se).and_then(|m| m.get(&Kind::P)) == Some(&Val::Ver(*cv)));
            if !ok {
                v.push(("C02", "periodic_value_from_nowhere", format!("client {c}: entity {se:#x} P = ver {cv}, not a server value at any tick <= {lt}")));
            }
        }
        // Once: the value of the last full send that has been applied.
        if let Some(Val::Ver(cv)) = comps.get(&Kind::O) {
            let last = sess
                .o_sent
                .get(se)
                .and_then(|l| l.iter().filter(|(t, _)| sess.upd_sent.iter().take(sess.upd_delivered).any(|(x, _)| x == t)).last());
            if let Some((_, sv)) = last {
                if sv != cv {
                    v.push(("C02", "once_value", format!("client {c}: entity {se:#x} O = ver {cv}, last value sent in full was ver {sv}")));
                }
            }
        }
        // Entity-valued components, only while the target is itself held and untainted.
        for k in [Kind::Ref, Kind::Link] {
            if let (Some(Val::Ent(st)), Some(Val::Ent(ct))) = (sc.get(&k), comps.get(&k)) {
                let taint = sess.ent_taint.get(&(*se, k)).copied().unwrap_or(0);
                if taint > *lt && !sim.no_taint {
                    continue;
                }
                let target_held = held.get(st).map(|h| h.0);
                let target_live = expected.as_ref().map(|e| e.contains_key(st)).unwrap_or(false) && visible_then && snap.vis[c].as_ref().map(|s| s.contains(st)).unwrap_or(false);
                if target_live {
                    if let Some(tcc) = target_held {
                        if tcc != *ct {
                            v.push(("C02", "reference_target", format!("client {c}: entity {se:#x} {k:?} points at client entity {ct:#x}, server target {st:#x} is client entity {tcc:#x}")));
                            if sess.premap.contains_key(st) {
                                v.push(("C16", "reference_to_duplicate", format!("client {c}: entity {se:#x} {k:?} points at {ct:#x} although its target {st:#x} was adopted as the pre-spawned {tcc:#x}: a second client entity stands for the server entity")));
                            }
                        }
                    }
                }
            }
        }
    }

    // ---- C10 (client side): every entity of an applied mutate message is at least at its tick
    for id in &newly_applied {
        let m = &sess.muts[id];
        for (e, _) in &m.ents {
            if let Some((_, _, _, lt)) = held.get(e) {
                if *lt < m.tick {
                    v.push(("C10", "partially_applied_message", format!("client {c}: mutate message of tick {} was applied but entity {e:#x} is still at {lt}", m.tick)));
                }
            }
        }
    }

    // ---- C02: EntityReplicated never names a tick newer than the entity's confirmed tick
    for (e, t) in &replicated {
        if let Some((se, (_, _, _, lt))) = held.iter().find(|(_, h)| h.0 == e.to_bits()) {
            if t > lt {
                v.push(("C02", "replicated_event_ahead", format!("client {c}: EntityReplicated for {:#x} names tick {t} but the entity's confirmed tick is {lt}", e.to_bits())));
            }
            // ... and a message of that tick addressed this entity.
            let addressed = sess.upd_msgs.iter().take(sess.upd_delivered).any(|m| m.tick == *t && (m.changes.iter().any(|(x, _)| x == se) || m.removals.iter().any(|(x, _)| x == se)))
                || sess.muts.values().any(|m| m.tick == *t && m.delivered && m.ents.iter().any(|(x, _)| x == se));
            if !addressed {
                v.push(("C02", "replicated_event_unaddressed", format!("client {c}: EntityReplicated for {:#x} (server {se:#x}) names tick {t}, but no delivered message of that tick addressed the entity", e.to_bits())));
            }
        }
    }

    // ---- C09: nothing of an earlier session
    for (e, t) in &replicated {
        if !sess.delivered_ticks.contains(t) {
            v.push(("C09", "replicated_event_foreign_tick", format!("client {c}: EntityReplicated for entity {:#x} names tick {t}, no message of that tick was delivered in this session", e.to_bits())));
        }
    }
    if sess.client_frames == 1 && sess.upd_delivered == 0 {
        if u != 0 || !tc.is_empty() {
            v.push(("C09", "session_not_clean", format!("client {c}: first frame of session {sid}: update tick {u}, {} map entries", tc.len())));
        }
    }

    // ---- C12 end to end
    if sim.prof.app.track {
        let mut expect: BTreeMap<u32, usize> = BTreeMap::new();
        for id in &newly_applied {
            let m = &sess.muts[id];
            *expect.entry(m.tick).or_insert(0) += 1;
        }
        // A tick completes in this frame if its applied count reaches `count` now.
        let mut should_fire: BTreeSet<u32> = BTreeSet::new();
        for (t, n_new) in &expect {
            let total = sess.muts.values().filter(|m| m.tick == *t && m.applied).count();
            // The number of messages the server really sent for this tick (not the count it announced).
            let count = sess.tick_msgs.get(t).map(|v| v.len()).unwrap_or(1);
            if total == count && *n_new > 0 {
                should_fire.insert(*t);
            }
        }
        let fired: Vec<u32> = mtr.clone();
        let fired_set: BTreeSet<u32> = fired.iter().copied().collect();
        if fired.len() != fired_set.len() {
            v.push(("C12", "tick_notification_twice", format!("client {c}: MutateTickReceived fired more than once in a frame: {fired:?}")));
        }
        // Ticks more than 64 behind the newest confirmed one are outside the tracker's window.
        let newest = sess.muts.values().filter(|m| m.applied).map(|m| m.tick).max().unwrap_or(0);
        for t in &should_fire {
            if !fired_set.contains(t) && newest.saturating_sub(*t) < 64 {
                v.push(("C12", "tick_notification_missing", format!("client {c}: all mutate messages of tick {t} are applied but MutateTickReceived did not fire")));
            }
        }
        for t in &fired_set {
            if !should_fire.contains(t) {
                v.push(("C12", "tick_notification_spurious", format!("client {c}: MutateTickReceived fired for tick {t} which did not complete in this frame")));
            }
        }
        // The global tracker answers like the set of completely applied ticks.
        if let Some(tr) = sim.clients[c].app.world().get_resource::<bevy_replicon::client::server_mutate_ticks::ServerMutateTicks>() {
            let last = tr.last_tick().get();
            if newest == last && !sess.tick0 {
                for d in 0..64u32 {
                    if d > last {
                        break;
                    }
                    let t = last - d;
                    let sent = sess.tick_msgs.get(&t).map(|v| v.len()).unwrap_or(0);
                    let applied = sess.muts.values().filter(|m| m.tick == t && m.applied).count();
                    let expect = sent > 0 && applied == sent;
                    let got = tr.contains(RepliconTick::new(t));
                    if got != expect {
                        v.push(("C12", "tracker_contains", format!("client {c}: ServerMutateTicks::contains({t}) = {got}, but {applied} of the {sent} mutate messages of that tick are applied (tracker last tick {last})")));
                        break;
                    }
                }
            }
        }
    } else if !mtr.is_empty() {
        v.push(("C12", "tick_notification_spurious", format!("client {c}: MutateTickReceived without tracking")));
    }

    // ---- C12 end to end: the per-entity confirmation history answers like a plain set of the ticks
    // whose messages were applied to the entity (update messages in order, then mutate messages newest
    // first; an older mutate message for an entity that is already ahead leaves no trace).
    {
        let mut conf = sess.conf.clone();
        let mut pred = sess.pred.clone();
        let mut hist = sess.hist.clone();
        let a_of = |comps: &Vec<CompRec>| comps.iter().find(|r| r.kind == Kind::A).and_then(|r| if let Val::Ver(v) = r.val { Some(v) } else { None });
        for m in sess.upd_msgs.iter().take(sess.upd_delivered).skip(sess.upd_applied) {
            for d in &m.despawns {
                conf.remove(d);
                pred.remove(d);
                hist.remove(d);
            }
            for (e, kinds) in m.removals.iter() {
                conf.entry(*e).or_default().insert(m.tick);
                if pred.contains(e) && kinds.contains(&Kind::A) {
                    hist.remove(e);
                }
            }
            for (e, comps) in m.changes.iter() {
                conf.entry(*e).or_default().insert(m.tick);
                if let (true, Some(v)) = (pred.contains(e), a_of(comps)) {
                    hist.entry(*e).or_default().push((m.tick, v));
                }
            }
        }
        let mut applied: Vec<&MutMeta> = newly_applied.iter().map(|id| &sess.muts[id]).collect();
        applied.sort_by(|a, b| b.tick.cmp(&a.tick));
        for m in applied {
            for (e, comps) in &m.ents {
                if let Some(set) = conf.get_mut(e) {
                    let newest = set.iter().next_back().copied().unwrap_or(0);
                    if m.tick > newest {
                        set.insert(m.tick);
                    } else if pred.contains(e) && newest - m.tick < 64 {
                        // With a marker that wants history an older message is confirmed and handed
                        // to the marker's write function.
                        set.insert(m.tick);
                        sim_probe_old += 1;
                    } else {
                        continue;
                    }
                    if let (true, Some(v)) = (pred.contains(e), a_of(comps)) {
                        hist.entry(*e).or_default().push((m.tick, v));
                    }
                }
            }
        }
        let w = sim.clients[c].app.world();
        for (se, (cc, _, _, lt)) in &held {
            let Some(set) = conf.get(se) else { continue };
            let Some(h) = w.get::<bevy_replicon::client::confirm_history::ConfirmHistory>(Entity::from_bits(*cc)) else { continue };
            if set.iter().next_back() != Some(lt) {
                if sess.tick0 && !sim.no_taint {
                    // Tick-0 ambiguity (known finding F20): the model cannot tell what was applied.
                    lost_track += 1;
                    continue;
                }
                v.push(("C12", "entity_confirmed_tick", format!("client {c}: entity {se:#x} reports confirmed tick {lt}, the newest message applied to it has tick {:?}", set.iter().next_back())));
                continue;
            }
            for d in 0..=70u32 {
                if d > *lt {
                    break;
                }
                let t = lt - d;
                let expect = d >= 64 || set.contains(&t);
                let got = h.contains(RepliconTick::new(t));
                if got != expect {
                    v.push(("C12", "entity_history_contains", format!("client {c}: entity {se:#x} (confirmed tick {lt}): ConfirmHistory::contains({t}) = {got}, ticks applied to it are {:?}", set.iter().rev().take(8).collect::<Vec<_>>())));
                    break;
                }
            }
            if h.contains(RepliconTick::new(lt + 1)) {
                v.push(("C12", "entity_history_contains", format!("client {c}: entity {se:#x}: ConfirmHistory::contains({}) is true beyond the confirmed tick {lt}", lt + 1)));
            }
        }
        // The marker's history component holds exactly the values the model says were written.
        for se in &pred {
            let Some((cc, ..)) = held.get(se) else { continue };
            if !conf.contains_key(se) {
                continue;
            }
            let mut got = w.get::<HistA>(Entity::from_bits(*cc)).map(|h| h.0.clone()).unwrap_or_default();
            let mut want = hist.get(se).cloned().unwrap_or_default();
            got.sort();
            want.sort();
            if got != want {
                v.push(("C12", "marker_history", format!("client {c}: entity {se:#x} with the history marker recorded (tick, version) pairs {got:?}, applied messages carried {want:?}")));
            }
        }
        conf_commit = Some((conf, pred, hist));
    }

    // ---- C04 / C05: observed server events
    let mut seen_now: Vec<(SEv, u32)> = vec![];
    let mut trig_seen: BTreeSet<u32> = BTreeSet::new();
    for o in &sev {
        if o.kind == SEv::Trig && !trig_seen.insert(o.seq) {
            continue; // one observation per target; grouped by seq
        }
        seen_now.push((o.kind, o.seq));
        let Some(rec) = sim.sev.iter().find(|e| e.seq == o.seq) else {
            v.push(("C05", "unknown_event_observed", format!("client {c} observed event seq {} that was never emitted", o.seq)));
            continue;
        };
        if rec.frame.map(|f| f <= sess.server_frames_at_connect).unwrap_or(false) {
            v.push(("C05", "event_from_before_connect", format!("client {c} session {sid} observed {:?} seq {} emitted before it connected", o.kind, o.seq)));
            v.push(("C09", "event_from_before_connect", format!("client {c} session {sid} observed {:?} seq {} emitted before it connected", o.kind, o.seq)));
        }
        let intended = rec.recipients.as_ref().map(|r| r.contains(&(c, sid))).unwrap_or(false);
        if !intended {
            v.push(("C05", "observed_by_non_recipient", format!("client {c} session {sid} observed {:?} seq {} (mode {:?}), recipients {:?}", o.kind, o.seq, rec.mode, rec.recipients)));
        }
        if sess.sev_seen.iter().any(|(k, s)| *k == o.kind && *s == o.seq) {
            v.push(("C05", "observed_twice", format!("client {c} observed {:?} seq {} twice", o.kind, o.seq)));
        }
        if o.kind != SEv::Ind {
            // C04: everything replicated to this client up to the flush tick has been applied.
            if let Some(sent) = sess.sev_sent.get(&o.seq).and_then(|l| l.first()) {
                if !sim.no_taint && sess.tick0 && sess.upd_delivered == 0 && sent.upd_before == 1 {
                    // Known finding F20: tick 0 cannot be told from "nothing received yet".
                    f20_hits += 1;
                } else if sess.upd_delivered < sent.upd_before {
                    v.push(("C04", "event_before_replication", format!("client {c} saw {:?} seq {} flushed at tick {} after {} update messages, but only {} of them were delivered (update tick {u})", o.kind, o.seq, sent.flush_tick, sent.upd_before, sess.upd_delivered)));
                }
            } else {
                // Never put on the wire for this session: the tick it waits for belongs to another session's
                // replication stream (a leftover of an earlier connection), so nothing ties its delivery to
                // what this session has applied.
                v.push(("C04", "event_without_replication_context", format!("client {c} session {sid} was handed {:?} seq {} although no message of this session carried it: its tick refers to replication this session never received", o.kind, o.seq)));
            }
            // Reference resolves to the client's own entity.
            if let Some(target) = rec.target {
                let mapped = tc.iter().find(|(s, _)| *s == target).map(|(_, c)| *c);
                let got = o.ent.map(|e| e.to_bits());
                match (mapped, got) {
                    (Some(m), Some(g)) if m == g => {
                        if sim.clients[c].app.world().get_entity(Entity::from_bits(g)).is_err() {
                            v.push(("C04", "event_reference_dead", format!("client {c}: {:?} seq {} references dead entity {g:#x}", o.kind, o.seq)));
                        }
                    }
                    (m, g) => v.push(("C04", "event_reference_wrong", format!("client {c}: {:?} seq {} delivered with entity {g:x?}, server entity {target:#x} maps to {m:x?}", o.kind, o.seq))),
                }
            }
        }
    }
    // order on ordered channels, per kind
    for k in [SEv::Ord, SEv::Ind, SEv::Trig] {
        let mut last = sess.sev_seen.iter().filter(|(x, _)| *x == k).map(|(_, s)| *s).max().unwrap_or(0);
        for (kk, s) in &seen_now {
            if *kk == k {
                if *s < last {
                    v.push(("C05", "ordered_channel_out_of_order", format!("client {c} observed {k:?} seq {s} after seq {last}")));
                }
                last = last.max(*s);
            }
        }
    }

    // ---- C16: pre-spawned entities are adopted
    for (se, (pre, cslot)) in &sess.premap {
        let _ = cslot;
        if let Some((cc, _, _, _)) = held.get(se) {
            let pre_alive_at_map = sim.clients[c].app.world().get_entity(Entity::from_bits(*pre)).is_ok();
            if pre_alive_at_map && cc != pre {
                v.push(("C16", "prespawn_not_adopted", format!("client {c}: server entity {se:#x} was mapped to pre-spawned {pre:#x} (alive) but is replicated onto {cc:#x}")));
            }
        }
    }
    // data of one server entity lives on exactly one client entity (tags are attributable)
    {
        let w = sim.clients[c].app.world();
        let mut owners: BTreeMap<u64, BTreeSet<u64>> = BTreeMap::new();
        for r in w.iter_entities() {
            let e = r.id();
            let vers = [
                r.get::<A>().map(|t| t.0.ver()),
                r.get::<B>().map(|t| t.0.ver()),
                r.get::<X>().map(|t| t.0.ver()),
                r.get::<Y>().map(|t| t.0.ver()),
                r.get::<S>().map(|t| t.0.ver()),
                r.get::<Imm>().map(|t| t.0.ver()),
                r.get::<O>().map(|t| t.0.ver()),
                r.get::<P>().map(|t| t.0.ver()),
                r.get::<Big>().map(|t| t.0.ver()),
            ];
            for ver in vers.into_iter().flatten() {
                if let Some(o) = sim.ver_owner.get(&ver) {
                    owners.entry(*o).or_default().insert(e.to_bits());
                }
            }
        }
        for (o, set) in owners {
            if set.len() > 1 {
                v.push(("C16", "duplicated_entity", format!("client {c}: data of server entity {o:#x} lives on {} client entities {set:x?}", set.len())));
            }
        }
    }

    if lost_track > 0 {
        *sim.stats.probes.entry("history_model_lost_track_tick0".into()).or_insert(0) += lost_track;
    }
    if sim_probe_old > 0 {
        *sim.stats.probes.entry("old_mutation_written_through_marker".into()).or_insert(0) += sim_probe_old;
    }
    if f20_hits > 0 {
        *sim.stats.probes.entry("known_F20_hit".into()).or_insert(0) += f20_hits;
    }
    // ---- commit bookkeeping
    let sess = sim.clients[c].sess.as_mut().unwrap();
    for cell in f20_healed {
        sess.f20_cells.remove(&cell);
    }
    for (seq, id, res) in due_now {
        if let Some(list) = sess.sev_sent.get_mut(&seq) {
            for e in list.iter_mut().filter(|e| e.msg_id == id) {
                e.due_u = Some(u);
                e.due_resolvable = res;
            }
        }
    }
    if let Some((conf, pred, hist)) = conf_commit {
        sess.conf = conf;
        sess.pred = pred;
        sess.hist = hist;
    }
    sess.last_u = u;
    for (_, (cc, _, _, lt)) in &held {
        sess.last_conf.insert(*cc, *lt);
    }
    sess.sev_seen.extend(seen_now);
    let after_crash = sess.after_crash;
    // Some entity of the initial visible state is still not held although an update message was applied.
    let initial_missing = sess.upd_applied > 0 && sess.initial.as_ref().map(|i| i.iter().any(|e| !held.contains_key(e) && expected.as_ref().map(|x| x.contains_key(e)).unwrap_or(false))).unwrap_or(false);
    for (p, o, d) in v {
        // The same observation can break several properties: a new session that does not converge
        // like a first connection (C09), an incomplete state after a late authorisation (C07).
        if after_crash && matches!(p, "C01" | "C02" | "C03") {
            sim.violate("C09", o, format!("[session after a disconnect / restart] {d}"));
        }
        if p == "C03" && o == "missing_entity" && initial_missing {
            sim.violate("C07", "initial_state_incomplete", format!("[entity was visible at the tick the client became authorised] {d}"));
        }
        sim.violate(p, o, d);
    }
}

/// Known finding F20: the client still lacks the write that was dropped before the tick-0 update message.
fn f20_exempt(sess: &Session, se: u64, k: Kind, client: &Val) -> bool {
    let ver = match client {
        Val::Ver(v) | Val::Big(v, _) => *v,
        Val::Ent(_) => return false,
    };
    sess.f20_cells.get(&(se, k)).map(|d| ver < *d).unwrap_or(false)
}

fn link_tainted(sess: &Session, se: u64, lt: u32) -> bool {
    sess.ent_taint.get(&(se, Kind::Link)).copied().unwrap_or(0) > lt
}

// ---------------------------------------------------------------------------------------------
// Quiescence

pub fn after_heal_round(sim: &mut Sim, round: u32, rounds: u32) {
    // C11 (iii): once everything is acknowledged an idle server is silent. Everything is delivered
    // in order during quiescence, so after the first rounds nothing may be left to send.
    let settle = 4 + 2 * sim.prof.app.period;
    if round < settle || rounds < settle + 3 {
        return;
    }
    for c in 0..sim.clients.len() {
        let Some(s) = sim.clients[c].sess.as_ref() else { continue };
        if !s.up() || !s.authorized {
            continue;
        }
        let n = s.idle_replication_msgs;
        let t = sim.server_tick();
        if sim.prof.app.track {
            let msgs = s.tick_msgs.get(&t).map(|v| v.len()).unwrap_or(0);
            let empty = s.tick_msgs.get(&t).map(|v| v.iter().all(|i| s.muts[i].ents.is_empty())).unwrap_or(true);
            let upd = s.upd_sent.last().map(|(x, _)| *x) == Some(t);
            // With tracking the per-tick message may be sent, but it must not carry any data.
            let _ = msgs;
            if !empty || upd {
                sim.violate("C11", "idle_not_silent", format!("quiescence round {round}: nothing changed and everything is acknowledged, but client {c} was sent replication data at tick {t} (mutate messages empty={empty}, update message={upd})"));
            }
        } else if n != 0 {
            // A periodic component stuck behind the known finding F4 legitimately keeps the entity dirty? No:
            // it is simply never sent. Anything sent here is unacknowledged data or a defect.
            sim.violate("C11", "idle_not_silent", format!("quiescence round {round}: server sent {n} replication message(s) to client {c} although nothing changed and everything was acknowledged"));
        }
    }
}

pub fn end_of_run(sim: &mut Sim) {
    let mut v: Vec<(&'static str, &'static str, String)> = vec![];
    let running = sim.running;
    for c in 0..sim.clients.len() {
        let Some(sess) = sim.clients[c].sess.as_ref() else { continue };
        if sess.up() && running && !sess.authorized && sim.prof.app.auth == 0 && sim.prof.wrong_proto & (1 << c) == 0 && !sim.clients[c].ever_injected && !sess.disconnect_requested {
            // Default protocol check, same protocol, link quiet: the handshake must have completed.
            let d = format!("client {c} session {} runs the server's protocol and its link is quiet, but it never became authorized (hash delivered: {})", sess.id, sess.hash_delivered);
            v.push(("C14", "matching_client_never_authorized", d.clone()));
            v.push(("C01", "client_never_authorized", d.clone()));
            if sess.after_crash {
                v.push(("C09", "client_never_authorized", format!("[session after a disconnect / restart] {d}")));
            }
        }
        if !sess.up() || !sess.authorized || !running {
            continue;
        }
        let (_u, held, _tc, _ts) = client_view(&sim.clients[c].app);
        let mut expected = 0usize;
        let first_of_client = v.len();
        for (i, s) in sim.slots.iter().enumerate() {
            let Some(e) = *s else { continue };
            let bits = e.to_bits();
            let want = sim.replicated(e) && sim.visible(c, bits);
            match (want, held.get(&bits)) {
                (false, None) => {}
                (false, Some((cc, ..))) => {
                    v.push(("C01", "extra_entity", format!("client {c} still holds slot {i} ({bits:#x} -> {cc:#x}) which is not replicated to it")));
                    if sim.replicated(e) {
                        v.push(("C08", "hidden_entity_kept", format!("client {c} still holds slot {i} ({bits:#x}) after quiescence although it is hidden from it")));
                    }
                }
                (true, None) => {
                    expected += 1;
                    v.push(("C01", "missing_entity", format!("client {c} lacks slot {i} ({bits:#x}) after quiescence")));
                    if sess.vis.contains_key(&bits) {
                        v.push(("C08", "visible_entity_missing", format!("client {c} lacks slot {i} ({bits:#x}) after quiescence although it was made visible to it")));
                    }
                }
                (true, Some((cc, marker, comps, lt))) => {
                    expected += 1;
                    if !*marker {
                        v.push(("C01", "marker_missing", format!("client {c}: slot {i} -> {cc:#x} lacks the Replicated marker")));
                    }
                    let sc = read_comps(sim.server.world(), e);
                    for k in ALL_KINDS {
                        let (a, b) = (sc.get(&k), comps.get(&k));
                        if a.is_some() != b.is_some() {
                            if k == Kind::Link && !sim.no_taint && link_tainted(sess, bits, *lt) {
                                continue;
                            }
                            if k == Kind::Link {
                                if let Some(Val::Ent(t)) = a {
                                    let te = Entity::from_bits(*t);
                                    let live = sim.slot_of(*t).is_some() && sim.replicated(te) && sim.visible(c, *t);
                                    if !live {
                                        continue;
                                    }
                                }
                            }
                            v.push(("C01", "component_presence", format!("client {c}: slot {i} {k:?} server={a:?} client={b:?} after quiescence")));
                            continue;
                        }
                        let (Some(a), Some(b)) = (a, b) else { continue };
                        match k {
                            Kind::P => {
                                if a != b && !sim.no_taint && f20_exempt(sess, bits, k, b) {
                                    *sim.stats.probes.entry("known_F20_hit".into()).or_insert(0) += 1;
                                } else if a != b {
                                    let Val::Ver(sv) = a else { continue };
                                    if !sim.no_taint && sess.p_taint.contains(&(bits ^ ((*sv as u64) << 40))) {
                                        sim.stats.probes.entry("known_F4_hit".into()).and_modify(|x| *x += 1).or_insert(1);
                                        continue;
                                    }
                                    v.push(("C01", "periodic_value", format!("client {c}: slot {i} P server={a:?} client={b:?} after quiescence (period {})", sim.prof.app.period)));
                                }
                            }
                            Kind::O => {
                                let last = sess.o_sent.get(&bits).and_then(|l| l.last());
                                if let (Some((_, sv)), Val::Ver(cv)) = (last, b) {
                                    if sv != cv {
                                        v.push(("C01", "once_value", format!("client {c}: slot {i} O = {cv}, last sent in full {sv}")));
                                    }
                                }
                            }
                            Kind::Ref | Kind::Link => {
                                let (Val::Ent(st), Val::Ent(ct)) = (a, b) else { continue };
                                if !sim.no_taint && sess.ent_taint.get(&(bits, k)).copied().unwrap_or(0) > *lt {
                                    sim.stats.probes.entry("known_F17_hit".into()).and_modify(|x| *x += 1).or_insert(1);
                                    continue;
                                }
                                let st_e = Entity::from_bits(*st);
                                let live = sim.slot_of(*st).is_some() && sim.replicated(st_e) && sim.visible(c, *st);
                                if live {
                                    if let Some((tcc, ..)) = held.get(st) {
                                        if tcc != ct {
                                            v.push(("C01", "reference_target", format!("client {c}: slot {i} {k:?} -> {ct:#x}, expected {tcc:#x}")));
                                            if sess.premap.contains_key(st) {
                                                v.push(("C16", "reference_to_duplicate", format!("client {c}: slot {i} {k:?} -> {ct:#x} although its target {st:#x} was adopted as the pre-spawned {tcc:#x}: a second client entity stands for the server entity")));
                                            }
                                        }
                                    }
                                }
                            }
                            _ => {
                                if a != b && !sim.no_taint && f20_exempt(sess, bits, k, b) {
                                    *sim.stats.probes.entry("known_F20_hit".into()).or_insert(0) += 1;
                                } else if a != b {
                                    v.push(("C01", "value", format!("client {c}: slot {i} {k:?} server={a:?} client={b:?} after quiescence (confirmed tick {lt})")));
                                }
                            }
                        }
                    }
                }
            }
        }
        let w = sim.clients[c].app.world();
        let n = w.iter_entities().filter(|r| r.contains::<bevy_replicon::client::confirm_history::ConfirmHistory>()).count();
        if n != expected {
            v.push(("C01", "entity_count", format!("client {c} has {n} replicated entities, server replicates {expected} to it")));
        }
        // The same divergence seen from the other properties' point of view.
        let injected_run = sim.stats.faults.contains_key("byzantine_bytes");
        let mut extra = vec![];
        for (p, o, d) in v[first_of_client..].iter() {
            if *p != "C01" {
                continue;
            }
            if sess.after_crash {
                extra.push(("C09", *o, format!("[session after a disconnect / restart] {d}")));
            }
            if *o == "missing_entity" {
                let init = sess.initial.as_ref().map(|i| sim.slots.iter().flatten().any(|e| i.contains(&e.to_bits()) && !held.contains_key(&e.to_bits()) && sim.replicated(*e) && sim.visible(c, e.to_bits()))).unwrap_or(false);
                if init {
                    extra.push(("C07", "initial_state_incomplete", format!("[an entity visible at the tick the client became authorised is still missing] {d}")));
                }
            }
            if injected_run && !sim.clients[c].ever_injected {
                extra.push(("C06", "honest_client_not_served", format!("[after malformed input from another client] {d}")));
            }
        }
        v.extend(extra);
    }

    // ---- C05: history check over the event log
    for e in &sim.sev {
        let reliable = e.kind != SEv::Unrel;
        for c in 0..sim.clients.len() {
            let Some(sess) = sim.clients[c].sess.as_ref() else { continue };
            let seen = sess.sev_seen.iter().filter(|(k, s)| *k == e.kind && *s == e.seq).count();
            let intended = e.recipients.as_ref().map(|r| r.contains(&(c, sess.id))).unwrap_or(false);
            if seen > 1 {
                v.push(("C05", "observed_twice", format!("client {c} observed {:?} seq {} {seen} times", e.kind, e.seq)));
            }
            // A client built with another independence mark cannot decode the server's independent event
            // (no guarantee is stated for a client whose protocol differs).
            let foreign = sim.prof.wrong_proto & (1 << c) != 0 && sim.prof.app.auth == 0 && sim.prof.wrong_variant == 2;
            if intended && reliable && seen == 0 && sess.up() && running && !foreign {
                let dropped = sess.sev_sent.get(&e.seq).map(|l| l.iter().all(|s| s.dropped)).unwrap_or(false);
                // An event whose reference cannot be resolved on this client is withheld by design:
                // require the target to be replicated to the client from the flush tick onwards.
                // The client resolves the reference in the frame in which the event became due; at that
                // moment it holds what the server had replicated to it at its update tick.
                let sent = sess.sev_sent.get(&e.seq).and_then(|l| l.iter().find(|s| s.due_u.is_some()));
                let resolvable = match (e.target, sent) {
                    (Some(_), Some(s)) => s.due_resolvable.unwrap_or(false),
                    (Some(_), None) => false,
                    (None, _) => true,
                };
                let f20 = !sim.no_taint
                    && sess.tick0
                    && e.target.is_some()
                    && sess.sev_sent.get(&e.seq).map(|l| l.iter().any(|s| s.upd_before == 1 && s.stamp == Some(0))).unwrap_or(false);
                if f20 {
                    *sim.stats.probes.entry("known_F20_hit".into()).or_insert(0) += 1;
                }
                if !dropped && resolvable && !f20 {
                    v.push(("C05", "reliable_event_lost", format!("client {c} session {} never observed {:?} seq {} (mode {:?}, emitted at step {}) although its session is still up", sess.id, e.kind, e.seq, e.mode, e.step)));
                }
            }
        }
    }
    for e in &sim.cev {
        let wire_ce = e.wire_ce;
        if e.seen.len() > 1 {
            v.push(("C05", "client_event_observed_twice", format!("server observed client event {:?} seq {} {} times", e.kind, e.seq, e.seen.len())));
        }
        for (client, ent) in &e.seen {
            if Some(*client) != wire_ce {
                v.push(("C05", "client_event_wrong_sender", format!("client event seq {} observed with sender {client:#x}, was sent by client {} ({wire_ce:x?})", e.seq, e.client)));
            }
            if e.kind != CEv::Ord && e.ent.is_some() && *ent != e.expected_server_ent {
                v.push(("C05", "client_event_entity", format!("client event seq {} observed with entity {ent:x?}, expected {:x?}", e.seq, e.expected_server_ent)));
            }
        }
        if e.on_wire == 0 && !e.seen.is_empty() {
            v.push(("C05", "client_event_from_nowhere", format!("server observed client event seq {} that was never put on the wire", e.seq)));
        }
        let sess_up = sim.clients[e.client].sess.as_ref().map(|s| s.up() && Some(s.id) == e.session).unwrap_or(false);
        if e.on_wire > 0 && sess_up && running && !e.lost_in_flight && e.kind != CEv::Unrel && e.seen.is_empty() && (e.kind != CEv::Map && e.kind != CEv::Trig || e.expected_server_ent.is_some() || e.ent.is_none()) {
            v.push(("C05", "client_event_lost", format!("client event {:?} seq {} was sent by client {} but never observed by the server", e.kind, e.seq, e.client)));
            if sim.stats.faults.contains_key("byzantine_bytes") && !sim.clients[e.client].ever_injected {
                v.push(("C06", "honest_client_event_lost", format!("[after malformed input from another client] client event {:?} seq {} of client {} never reached the server's logic", e.kind, e.seq, e.client)));
            }
        }
        if e.eligible && e.client_frame_after && sess_up && e.on_wire == 0 && e.ent.is_none() {
            v.push(("C05", "client_event_not_sent", format!("client event {:?} seq {} written while connected was never put on the wire", e.kind, e.seq)));
        }
    }
    for (p, o, d) in v {
        sim.violate(p, o, d);
    }
}

#[allow(dead_code)]
fn unused(_: Mode) {}
