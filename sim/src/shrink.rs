//! Trace minimisation: delta debugging over steps while the same oracle of the same property fires.

use crate::engine::Engine;
use crate::sim::Violation;

pub fn fails<E: Engine>(trace: &E::T, prop: &str, oracle: &str) -> Option<Violation> {
    let o = E::run(trace, false, false);
    if o.harness_error.is_some() {
        return None;
    }
    o.violations.into_iter().find(|v| v.prop == prop && v.oracle == oracle)
}

pub fn shrink<E: Engine>(trace: &E::T, prop: &str, oracle: &str, budget: usize) -> (E::T, usize) {
    shrink_with::<E>(trace, budget, &mut |t| fails::<E>(t, prop, oracle).map(|v| v.step))
}

/// Minimisation of a trace that kills the process: every candidate runs in a child process.
pub fn shrink_abort<E: Engine>(trace: &E::T, budget: usize) -> (E::T, usize) {
    shrink_with::<E>(trace, budget, &mut |t| crate::check::run_isolated::<E>(t, false).is_err().then_some(usize::MAX))
}

/// `fails` returns the step of the violation (or `usize::MAX` when unknown) while the failure persists.
pub fn shrink_with<E: Engine>(trace: &E::T, budget: usize, fails_at: &mut dyn FnMut(&E::T) -> Option<usize>) -> (E::T, usize) {
    let mut best = trace.clone();
    let mut runs = 0usize;
    let mut fails = |t: &E::T, _: &str, _: &str| fails_at(t);
    let (prop, oracle) = ("", "");
    if let Some(step) = fails(&best, prop, oracle).filter(|s| *s != usize::MAX) {
        let t = E::cut_after(&best, step);
        runs += 1;
        if E::len(&t) < E::len(&best) && fails(&t, prop, oracle).is_some() {
            best = t;
        }
    }
    // ddmin
    let mut n = 2usize;
    while E::len(&best) >= 2 && runs < budget {
        let len = E::len(&best);
        let chunk = len.div_ceil(n);
        let mut reduced = false;
        let mut start = 0;
        while start < len && runs < budget {
            let end = (start + chunk).min(len);
            let t = E::without(&best, start, end);
            runs += 1;
            if E::len(&t) > 0 && fails(&t, prop, oracle).is_some() {
                best = t;
                n = (n - 1).max(2);
                reduced = true;
                break;
            }
            start = end;
        }
        if !reduced {
            if chunk <= 1 {
                break;
            }
            n = (n * 2).min(len);
        }
    }
    // Simplify the configuration and parameters.
    let mut changed = true;
    while changed && runs < budget {
        changed = false;
        for t in E::simplify(&best) {
            runs += 1;
            if fails(&t, prop, oracle).is_some() {
                best = t;
                changed = true;
                break;
            }
        }
    }
    // Final single-step pass.
    let mut i = 0;
    while i < E::len(&best) && runs < budget {
        let t = E::without(&best, i, i + 1);
        runs += 1;
        if E::len(&t) > 0 && fails(&t, prop, oracle).is_some() {
            best = t;
        } else {
            i += 1;
        }
    }
    (best, runs)
}
