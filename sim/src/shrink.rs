//! Trace minimisation: delta debugging over steps while the same oracle of the same property fires.

use crate::sim::{Sim, Violation};
use crate::steps::*;

pub fn fails(trace: &Trace, prop: &str, oracle: &str) -> Option<Violation> {
    let s = Sim::run(trace, false);
    if s.harness_error.is_some() {
        return None;
    }
    s.violations.into_iter().find(|v| v.prop == prop && v.oracle == oracle)
}

pub fn shrink(trace: &Trace, prop: &str, oracle: &str, budget: usize) -> (Trace, usize) {
    let mut best = trace.clone();
    let mut runs = 0usize;
    // Cut everything after the violating step (keep Heal if the oracle is an end-of-run one).
    if let Some(v) = fails(&best, prop, oracle) {
        let cut = (v.step + 1).min(best.steps.len());
        let mut t = best.clone();
        t.steps.truncate(cut);
        if !matches!(t.steps.last(), Some(Step::Heal)) && matches!(trace.steps.get(v.step), Some(Step::Heal)) {
            t.steps.push(Step::Heal);
        }
        runs += 1;
        if fails(&t, prop, oracle).is_some() {
            best = t;
        }
    }
    // ddmin
    let mut n = 2usize;
    while best.steps.len() >= 2 && runs < budget {
        let len = best.steps.len();
        let chunk = len.div_ceil(n);
        let mut reduced = false;
        let mut start = 0;
        while start < len && runs < budget {
            let end = (start + chunk).min(len);
            let mut t = best.clone();
            t.steps.drain(start..end);
            runs += 1;
            if !t.steps.is_empty() && fails(&t, prop, oracle).is_some() {
                best = t;
                n = (n - 1).max(2);
                reduced = true;
                break;
            }
            start = end;
        }
        if !reduced {
            if chunk <= 1 {
                break;
            }
            n = (n * 2).min(len);
        }
    }
    // Simplify the configuration: fewer clients / slots, plain parameters.
    let mut changed = true;
    while changed && runs < budget {
        changed = false;
        let mut cands: Vec<Trace> = vec![];
        let p = &best.profile;
        if p.clients > 1 {
            let mut t = best.clone();
            t.profile.clients -= 1;
            cands.push(t);
        }
        if p.app.track {
            let mut t = best.clone();
            t.profile.app.track = false;
            cands.push(t);
        }
        if p.app.sync_related {
            let mut t = best.clone();
            t.profile.app.sync_related = false;
            cands.push(t);
        }
        if p.max_size != [1200; 3] {
            let mut t = best.clone();
            t.profile.max_size = [1200; 3];
            cands.push(t);
        }
        if p.app.timeout_ms != 10_000 {
            let mut t = best.clone();
            t.profile.app.timeout_ms = 10_000;
            cands.push(t);
        }
        if p.server_role != crate::pool::Role::ServerOnly {
            let mut t = best.clone();
            t.profile.server_role = crate::pool::Role::ServerOnly;
            cands.push(t);
        }
        if p.client_role != crate::pool::Role::ClientOnly {
            let mut t = best.clone();
            t.profile.client_role = crate::pool::Role::ClientOnly;
            cands.push(t);
        }
        if p.app.tick_policy != 0 {
            let mut t = best.clone();
            t.profile.app.tick_policy = 0;
            cands.push(t);
        }
        if p.app.auth != 1 {
            let mut t = best.clone();
            t.profile.app.auth = 1;
            cands.push(t);
        }
        // dt -> 16 ms, pick -> 0
        {
            let mut t = best.clone();
            let mut any = false;
            for s in t.steps.iter_mut() {
                match s {
                    Step::ServerFrame { dt_ms, .. } | Step::ClientFrame { dt_ms, .. } if *dt_ms != 16 => {
                        *dt_ms = 16;
                        any = true;
                    }
                    Step::Deliver { pick, .. } | Step::Drop { pick, .. } if *pick != 0 => {
                        *pick = 0;
                        any = true;
                    }
                    _ => {}
                }
            }
            if any {
                cands.push(t);
            }
        }
        for t in cands {
            runs += 1;
            if fails(&t, prop, oracle).is_some() {
                best = t;
                changed = true;
                break;
            }
        }
    }
    // Final single-step pass.
    let mut i = 0;
    while i < best.steps.len() && runs < budget {
        let mut t = best.clone();
        t.steps.remove(i);
        runs += 1;
        if !t.steps.is_empty() && fails(&t, prop, oracle).is_some() {
            best = t;
        } else {
            i += 1;
        }
    }
    (best, runs)
}
