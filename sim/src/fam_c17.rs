//! C17: the example backend (real framing, queueing and systems) over in-memory pipes (`verif_sim_net`).

use std::panic::{AssertUnwindSafe, catch_unwind};

use bevy::prelude::*;
use bevy_replicon::prelude::*;
use bevy_replicon_example_backend::{ExampleClient, ExampleServer, RepliconExampleBackendPlugins, sim_net::control};
use serde::{Deserialize, Serialize};
use serde_json::json;

use crate::engine::{Directed, Engine, Outcome};
use crate::rng::Rng;
use crate::sim::{Stats, Violation};

#[derive(Serialize, Deserialize, Clone, Debug, PartialEq)]
pub enum Rel {
    All,
    /// Message-aligned prefix.
    Msgs(u8),
    /// Arbitrary byte count (TCP segment boundary anywhere).
    Bytes(u16),
}

#[derive(Serialize, Deserialize, Clone, Debug, PartialEq)]
pub enum S17 {
    /// Server event to all clients; ch 0/1 ordered channels, 2 unordered.
    SEmit { ch: u8, len: u16 },
    /// Client event; ch 0 ordered, 1 unordered.
    CEmit { client: u8, ch: u8, len: u16 },
    ServerFrame,
    ClientFrame { client: u8 },
    Release { client: u8, to_server: bool, what: Rel },
    /// The connection of one client goes away (both directions closed, bytes in flight stay in flight).
    #[serde(alias = "close")]
    Close { client: u8 },
}

#[derive(Serialize, Deserialize, Clone, Debug, PartialEq)]
pub struct T17 {
    pub clients: u8,
    pub steps: Vec<S17>,
    /// Server frames (each with one broadcast event) that run after the connections were accepted and before
    /// the clients' first frame: messages are already waiting when a client starts.
    #[serde(default)]
    pub late_start: u8,
}

#[derive(Event, Serialize, Deserialize, Clone, Debug)]
struct Sa(u32, Vec<u8>);
#[derive(Event, Serialize, Deserialize, Clone, Debug)]
struct Sb(u32, Vec<u8>);
#[derive(Event, Serialize, Deserialize, Clone, Debug)]
struct Su(u32, Vec<u8>);
#[derive(Event, Serialize, Deserialize, Clone, Debug)]
struct Ca(u32, Vec<u8>);
#[derive(Event, Serialize, Deserialize, Clone, Debug)]
struct Cu(u32, Vec<u8>);

/// (type index, seq, payload intact)
#[derive(Resource, Default)]
struct Got {
    s: Vec<(u8, u32, bool)>,
    c: Vec<(u8, u32, bool, Entity)>,
    frame_count: usize,
}

fn payload(seq: u32, len: usize) -> Vec<u8> {
    (0..len).map(|j| (seq.wrapping_mul(31).wrapping_add(j as u32)) as u8).collect()
}

fn intact(seq: u32, p: &[u8]) -> bool {
    p.iter().enumerate().all(|(j, b)| *b == (seq.wrapping_mul(31).wrapping_add(j as u32)) as u8)
}

fn probe(
    mut g: ResMut<Got>,
    mut a: EventReader<Sa>,
    mut b: EventReader<Sb>,
    mut u: EventReader<Su>,
    mut ca: EventReader<FromClient<Ca>>,
    mut cu: EventReader<FromClient<Cu>>,
) {
    let before = g.s.len() + g.c.len();
    for e in a.read() {
        let ok = intact(e.0, &e.1);
        g.s.push((0, e.0, ok));
    }
    for e in b.read() {
        let ok = intact(e.0, &e.1);
        g.s.push((1, e.0, ok));
    }
    for e in u.read() {
        let ok = intact(e.0, &e.1);
        g.s.push((2, e.0, ok));
    }
    for e in ca.read() {
        let ok = intact(e.event.0, &e.event.1);
        g.c.push((0, e.event.0, ok, e.client));
    }
    for e in cu.read() {
        let ok = intact(e.event.0, &e.event.1);
        g.c.push((1, e.event.0, ok, e.client));
    }
    g.frame_count = g.s.len() + g.c.len() - before;
}

fn build() -> App {
    let mut app = App::new();
    app.add_plugins((
        MinimalPlugins,
        RepliconPlugins
            .set(RepliconSharedPlugin { auth_method: AuthMethod::None })
            .set(ServerPlugin { tick_policy: TickPolicy::EveryFrame, ..Default::default() }),
        RepliconExampleBackendPlugins,
    ))
    .add_server_event::<Sa>(Channel::Ordered)
    .make_event_independent::<Sa>()
    .add_server_event::<Sb>(Channel::Ordered)
    .make_event_independent::<Sb>()
    .add_server_event::<Su>(Channel::Unordered)
    .make_event_independent::<Su>()
    .add_client_event::<Ca>(Channel::Ordered)
    .add_client_event::<Cu>(Channel::Unordered)
    .init_resource::<Got>()
    .add_systems(Update, probe);
    app.finish();
    app.cleanup();
    app
}

fn upd(app: &mut App) -> Result<(), String> {
    catch_unwind(AssertUnwindSafe(|| app.update())).map_err(|e| {
        e.downcast_ref::<String>().cloned().or_else(|| e.downcast_ref::<&str>().map(|s| s.to_string())).unwrap_or("panic".into())
    })
}

/// Sizes of the complete frames at the front of `bytes` (3-byte header: channel, u16 length).
fn frames(bytes: &[u8]) -> Vec<usize> {
    let mut v = vec![];
    let mut i = 0;
    while i + 3 <= bytes.len() {
        let len = u16::from_le_bytes([bytes[i + 1], bytes[i + 2]]) as usize;
        if i + 3 + len > bytes.len() {
            break;
        }
        v.push(3 + len);
        i += 3 + len;
    }
    v
}

pub struct C17;

impl C17 {
    fn exec(t: &T17, verbose: bool) -> Outcome {
        let mut stats = Stats::default();
        let mut violations: Vec<Violation> = vec![];
        let mut log = vec![];
        let mut viol = |step: usize, oracle: &str, detail: String, violations: &mut Vec<Violation>| {
            if violations.len() < 16 {
                violations.push(Violation { prop: "C17".into(), oracle: oracle.into(), detail, step });
            }
        };
        control::reset();
        control::set_hold(false);
        let n = t.clients.clamp(1, 2) as usize;
        let mut server = build();
        let srv = match ExampleServer::new(0) {
            Ok(s) => s,
            Err(e) => return Outcome { violations, stats, harness_error: Some(format!("bind: {e}")), log },
        };
        let port = srv.local_addr().unwrap().port();
        server.insert_resource(srv);
        let mut clients: Vec<App> = vec![];
        for _ in 0..n {
            let mut c = build();
            match ExampleClient::new(port) {
                Ok(cl) => {
                    c.insert_resource(cl);
                }
                Err(e) => return Outcome { violations, stats, harness_error: Some(format!("connect: {e}")), log },
            }
            clients.push(c);
            // Accept in connection order so that connection index == client index.
            let _ = upd(&mut server);
        }
        let mut seq = 0u32;
        // sent[type] = seqs in sending order
        let mut sent_s: [Vec<u32>; 3] = Default::default();
        for _ in 0..t.late_start.min(3) {
            seq += 1;
            server.world_mut().send_event(ToClients { mode: SendMode::Broadcast, event: Sa(seq, payload(seq, 8)) });
            sent_s[0].push(seq);
            let _ = upd(&mut server);
            stats.fault("client_starts_late");
        }
        for _ in 0..3 {
            let _ = upd(&mut server);
            for c in clients.iter_mut() {
                let _ = upd(c);
            }
        }
        let connected = server.world_mut().query::<&ConnectedClient>().iter(server.world()).count();
        if connected != n || control::connections() != n {
            return Outcome { violations, stats, harness_error: Some(format!("setup: {connected} clients connected, {} connections", control::connections())), log };
        }
        control::set_hold(true);

        let mut sent_c: Vec<[Vec<u32>; 2]> = vec![Default::default(); n];
        let mut dead = false;
        let mut closed = vec![false; n];
        // C13 with the real backend: client events written since the client's last frame, and those that
        // a frame ending in status Disconnected left to the local path.
        let mut pending_c: Vec<Vec<(u8, u32)>> = vec![vec![]; n];
        let mut expect_local: Vec<Vec<(u8, u32)>> = vec![vec![]; n];
        let total_steps = t.steps.len();
        let mut epilogue: Vec<S17> = vec![];
        for _ in 0..4 {
            epilogue.push(S17::ServerFrame);
            for c in 0..n {
                epilogue.push(S17::ClientFrame { client: c as u8 });
            }
            for c in 0..n {
                epilogue.push(S17::Release { client: c as u8, to_server: true, what: Rel::All });
                epilogue.push(S17::Release { client: c as u8, to_server: false, what: Rel::All });
            }
        }
        for (i, step) in t.steps.iter().chain(epilogue.iter()).enumerate() {
            if dead {
                break;
            }
            stats.steps += 1;
            if verbose && i < total_steps {
                log.push(format!("{i}: {step:?}"));
            }
            match step {
                S17::SEmit { ch, len } => {
                    seq += 1;
                    let p = payload(seq, *len as usize);
                    let w = server.world_mut();
                    match ch % 3 {
                        0 => {
                            w.send_event(ToClients { mode: SendMode::Broadcast, event: Sa(seq, p) });
                        }
                        1 => {
                            w.send_event(ToClients { mode: SendMode::Broadcast, event: Sb(seq, p) });
                        }
                        _ => {
                            w.send_event(ToClients { mode: SendMode::Broadcast, event: Su(seq, p) });
                        }
                    }
                    sent_s[(*ch % 3) as usize].push(seq);
                    Stats::bump(&mut stats.ops, "server_emit");
                }
                S17::CEmit { client, ch, len } => {
                    let c = *client as usize % n;
                    seq += 1;
                    let p = payload(seq, *len as usize);
                    if ch % 2 == 0 {
                        clients[c].world_mut().send_event(Ca(seq, p));
                    } else {
                        clients[c].world_mut().send_event(Cu(seq, p));
                    }
                    sent_c[c][(*ch % 2) as usize].push(seq);
                    pending_c[c].push((*ch % 2, seq));
                    Stats::bump(&mut stats.ops, "client_emit");
                }
                S17::ServerFrame => {
                    stats.server_frames += 1;
                    if let Err(p) = upd(&mut server) {
                        viol(i, "panic", format!("server frame panicked: {p}"), &mut violations);
                        dead = true;
                        continue;
                    }
                    let got = server.world().resource::<Got>().frame_count;
                    if got >= 12 {
                        stats.fault("pile_up_12plus");
                    }
                    stats.sigs.insert(((got.min(40) as u64) << 8) | 1);
                    if got > 0 {
                        stats.nontrivial_sigs.insert(((got.min(40) as u64) << 8) | 1);
                    }
                }
                S17::ClientFrame { client } => {
                    let c = *client as usize % n;
                    stats.client_frames += 1;
                    if let Err(p) = upd(&mut clients[c]) {
                        viol(i, "panic", format!("client {c} frame panicked: {p}"), &mut violations);
                        dead = true;
                        continue;
                    }
                    // The backend sets the status before the library's send systems run: a frame that ends
                    // disconnected has sent nothing, what was written for it goes the local way.
                    let pend = std::mem::take(&mut pending_c[c]);
                    if clients[c].world().resource::<RepliconClient>().is_disconnected() && !pend.is_empty() {
                        stats.probe("client_event_in_disconnected_frame");
                        expect_local[c].extend(pend);
                    }
                    let got = clients[c].world().resource::<Got>().frame_count;
                    if got >= 12 {
                        stats.fault("pile_up_12plus");
                    }
                    stats.sigs.insert(((got.min(40) as u64) << 8) | 2);
                    if got > 0 {
                        stats.nontrivial_sigs.insert(((got.min(40) as u64) << 8) | 2);
                    }
                }
                S17::Close { client } => {
                    let c = *client as usize % n;
                    if n >= 2 && !closed[c] {
                        control::close(c);
                        closed[c] = true;
                        stats.fault("peer_gone");
                    }
                }
                S17::Release { client, to_server, what } => {
                    let c = *client as usize % n;
                    let pending = control::pending(c, *to_server);
                    if pending == 0 {
                        continue;
                    }
                    let k = match what {
                        Rel::All => pending,
                        Rel::Msgs(m) => {
                            let f = frames(&control::peek_pending(c, *to_server));
                            f.iter().take(*m as usize).sum::<usize>()
                        }
                        Rel::Bytes(b) => (*b as usize).min(pending),
                    };
                    if k == 0 {
                        continue;
                    }
                    let f = frames(&control::peek_pending(c, *to_server)[..k]);
                    let aligned = f.iter().sum::<usize>() == k;
                    if !aligned {
                        stats.fault("segment_boundary");
                    } else if f.len() >= 2 {
                        stats.fault("pile_up");
                    }
                    control::release(c, *to_server, k);
                    stats.bytes += k as u64;
                    stats.messages += f.len() as u64;
                }
            }
        }
        if !dead {
            let end = total_steps;
            for c in 0..n {
                let got = &clients[c].world().resource::<Got>().s;
                for ty in 0..3u8 {
                    let recv: Vec<u32> = got.iter().filter(|x| x.0 == ty).map(|x| x.1).collect();
                    let sent = &sent_s[ty as usize];
                    check_lists(&mut violations, end, &format!("server->client {c} type {ty}"), sent, &recv, true, !closed[c]);
                }
                if let Some(bad) = got.iter().find(|x| !x.2) {
                    viol(end, "payload_changed", format!("client {c} received seq {} (type {}) with a changed payload", bad.1, bad.0), &mut violations);
                }
            }
            let got = &server.world().resource::<Got>().c;
            let mut senders: Vec<Entity> = vec![];
            for x in got.iter() {
                if !senders.contains(&x.3) {
                    senders.push(x.3);
                }
            }
            for c in 0..n {
                for ty in 0..2u8 {
                    let sent = &sent_c[c][ty as usize];
                    let recv: Vec<u32> = got.iter().filter(|x| x.0 == ty && sent.contains(&x.1)).map(|x| x.1).collect();
                    check_lists(&mut violations, end, &format!("client {c}->server type {ty}"), sent, &recv, true, !closed[c]);
                    // The sender identity is that client's connection entity, the same for all its events.
                    let who: Vec<Entity> = got.iter().filter(|x| x.0 == ty && sent.contains(&x.1)).map(|x| x.3).collect();
                    if let Some(first) = who.first() {
                        if who.iter().any(|e| e != first) {
                            viol(end, "sender_identity", format!("events of client {c} arrived with different sender entities {who:?}"), &mut violations);
                        }
                        for other in 0..n {
                            if other != c {
                                let theirs = &sent_c[other];
                                if got.iter().any(|x| theirs.iter().any(|l| l.contains(&x.1)) && x.3 == *first) {
                                    viol(end, "sender_identity", format!("events of clients {c} and {other} arrived with the same sender entity {first}"), &mut violations);
                                }
                            }
                        }
                    }
                }
            }
            // C13: events left to the local path are observed there exactly once, as the local server's.
            for c in 0..n {
                let local = &clients[c].world().resource::<Got>().c;
                for (ty, s) in &expect_local[c] {
                    let seen: Vec<Entity> = local.iter().filter(|x| x.0 == *ty && x.1 == *s).map(|x| x.3).collect();
                    let remote = got.iter().filter(|x| x.0 == *ty && x.1 == *s).count();
                    if seen.len() != 1 || remote != 0 || seen[0] != SERVER {
                        if violations.len() < 16 {
                            violations.push(Violation {
                                prop: "C13".into(),
                                oracle: "local_event_path".into(),
                                detail: format!("client {c} wrote event seq {s} (type {ty}) for a frame that ended disconnected: observed locally {} time(s) (senders {seen:?}), by the remote server {remote} time(s); expected once locally as the local server", seen.len()),
                                step: end,
                            });
                        }
                    }
                }
            }
            let all_sent: Vec<u32> = sent_c.iter().flat_map(|a| a.iter().flatten().copied()).collect();
            for x in got.iter() {
                if !all_sent.contains(&x.1) {
                    viol(end, "unknown_message", format!("server received client event seq {} that no client sent", x.1), &mut violations);
                }
                if !x.2 {
                    viol(end, "payload_changed", format!("server received seq {} with a changed payload", x.1), &mut violations);
                }
            }
        }
        stats.progress_runs = 1;
        Outcome { violations, stats, harness_error: None, log }
    }
}

/// `complete == false`: the connection went away during the run - nothing has to arrive, but what arrives
/// arrives once, on its channel and in sending order.
fn check_lists(v: &mut Vec<Violation>, step: usize, what: &str, sent: &[u32], recv: &[u32], ordered: bool, complete: bool) {
    let mut push = |oracle: &str, detail: String| {
        if v.len() < 16 {
            v.push(Violation { prop: "C17".into(), oracle: oracle.into(), detail, step });
        }
    };
    for s in sent {
        let n = recv.iter().filter(|r| *r == s).count();
        if n == 0 && !complete {
            continue;
        }
        if n == 0 {
            push("message_lost", format!("{what}: seq {s} never arrived (sent {} received {})", sent.len(), recv.len()));
            return;
        }
        if n > 1 {
            push("message_duplicated", format!("{what}: seq {s} arrived {n} times"));
            return;
        }
    }
    if let Some(r) = recv.iter().find(|r| !sent.contains(r)) {
        push("wrong_channel", format!("{what}: received seq {r} that was sent as another type"));
        return;
    }
    if ordered && !complete {
        let kept: Vec<u32> = sent.iter().copied().filter(|x| recv.contains(x)).collect();
        if kept != recv {
            push("out_of_order", format!("{what}: arrival order differs from sending order: sent {sent:?} received {recv:?}"));
        }
        return;
    }
    if ordered && sent != recv {
        let pos = sent.iter().zip(recv).position(|(a, b)| a != b);
        push("out_of_order", format!("{what}: arrival order differs from sending order at position {pos:?}: sent {sent:?} received {recv:?}"));
    }
}

impl Engine for C17 {
    type T = T17;
    const FAMILY: &'static str = "c17";

    fn generate(prop: &str, seed: u64) -> T17 {
        let mut r = Rng::new(seed);
        let clients = if prop == "C13" { 2 } else { 1 + r.chance(30) as u8 };
        let torn = r.chance(40);
        let mut steps = vec![];
        let windows = r.range(1, 4);
        for _ in 0..windows {
            let emits = if r.chance(30) { r.range(12, 64) } else { r.range(1, 14) };
            let frames = r.range(1, 4);
            for f in 0..frames {
                let share = emits / frames + if f == 0 { emits % frames } else { 0 };
                for _ in 0..share {
                    let big = r.chance(15);
                    let len = if big { r.range(200, 1200) } else { r.below(60) } as u16;
                    if r.chance(60) {
                        steps.push(S17::SEmit { ch: r.below(3) as u8, len });
                    } else {
                        steps.push(S17::CEmit { client: r.below(clients as usize) as u8, ch: r.below(2) as u8, len });
                    }
                }
                steps.push(S17::ServerFrame);
                for c in 0..clients {
                    steps.push(S17::ClientFrame { client: c });
                }
            }
            // release decisions
            for c in 0..clients {
                for to_server in [false, true] {
                    let k = r.range(1, 3);
                    for _ in 0..k {
                        let what = if torn && r.chance(60) {
                            Rel::Bytes(r.pick(&[1u16, 2, 3, 4, 5, 7, 10, 50, 200, 700, 1500]))
                        } else if r.chance(50) {
                            Rel::All
                        } else {
                            Rel::Msgs(r.range(1, 20) as u8)
                        };
                        steps.push(S17::Release { client: c, to_server, what });
                        if r.chance(50) {
                            if to_server {
                                steps.push(S17::ServerFrame);
                            } else {
                                steps.push(S17::ClientFrame { client: c });
                            }
                        }
                    }
                }
            }
        }
        if clients == 2 && (prop == "C13" || r.chance(20)) && steps.len() > 4 {
            // One of two clients goes away somewhere in the run; the other one must not notice.
            let at = r.range(1, steps.len() - 1);
            let who = r.below(2) as u8;
            let mut ins = vec![S17::Close { client: who }];
            if prop == "C13" || r.chance(40) {
                // ... and writes events around the frame in which it notices.
                for _ in 0..r.range(0, 2) {
                    ins.push(S17::Release { client: who, to_server: false, what: Rel::All });
                }
                for _ in 0..r.range(1, 3) {
                    ins.push(S17::CEmit { client: who, ch: r.below(2) as u8, len: r.below(20) as u16 });
                    if r.chance(60) {
                        ins.push(S17::ClientFrame { client: who });
                    }
                }
            }
            for (k, st) in ins.into_iter().enumerate() {
                steps.insert(at + k, st);
            }
        }
        T17 { clients, steps, late_start: if r.chance(30) { r.range(1, 3) as u8 } else { 0 } }
    }

    fn run(t: &T17, verbose: bool, _no_taint: bool) -> Outcome {
        Self::exec(t, verbose)
    }

    fn len(t: &T17) -> usize {
        t.steps.len()
    }

    fn without(t: &T17, from: usize, to: usize) -> T17 {
        let mut t = t.clone();
        t.steps.drain(from..to.min(t.steps.len()));
        t
    }

    fn cut_after(t: &T17, _step: usize) -> T17 {
        t.clone()
    }

    fn simplify(t: &T17) -> Vec<T17> {
        let mut v = vec![];
        if t.late_start > 0 {
            let mut c = t.clone();
            c.late_start -= 1;
            v.push(c);
        }
        if t.clients > 1 {
            let mut c = t.clone();
            c.clients = 1;
            v.push(c);
        }
        let mut c = t.clone();
        let mut any = false;
        for s in c.steps.iter_mut() {
            match s {
                S17::SEmit { len, .. } | S17::CEmit { len, .. } if *len > 4 => {
                    *len = 4;
                    any = true;
                }
                _ => {}
            }
        }
        if any {
            v.push(c);
        }
        v
    }

    fn directed(_prop: &str) -> Vec<Directed<T17>> {
        // F7: two dozen messages piled up before one receiver frame.
        let mut pile = vec![];
        for _ in 0..24 {
            pile.push(S17::SEmit { ch: 0, len: 8 });
        }
        pile.push(S17::ServerFrame);
        pile.push(S17::Release { client: 0, to_server: false, what: Rel::All });
        pile.push(S17::ClientFrame { client: 0 });
        let mut pile_up = vec![];
        for _ in 0..24 {
            pile_up.push(S17::CEmit { client: 0, ch: 0, len: 8 });
        }
        pile_up.push(S17::ClientFrame { client: 0 });
        pile_up.push(S17::Release { client: 0, to_server: true, what: Rel::All });
        pile_up.push(S17::ServerFrame);
        // F16: segment boundary inside a frame.
        let torn = vec![
            S17::SEmit { ch: 0, len: 100 },
            S17::SEmit { ch: 0, len: 100 },
            S17::ServerFrame,
            S17::Release { client: 0, to_server: false, what: Rel::Bytes(50) },
            S17::ClientFrame { client: 0 },
            S17::Release { client: 0, to_server: false, what: Rel::All },
            S17::ClientFrame { client: 0 },
        ];
        let torn_header = vec![
            S17::CEmit { client: 0, ch: 0, len: 20 },
            S17::CEmit { client: 0, ch: 1, len: 20 },
            S17::ClientFrame { client: 0 },
            S17::Release { client: 0, to_server: true, what: Rel::Bytes(2) },
            S17::ServerFrame,
            S17::Release { client: 0, to_server: true, what: Rel::Bytes(3) },
            S17::ServerFrame,
            S17::Release { client: 0, to_server: true, what: Rel::All },
            S17::ServerFrame,
        ];
        vec![
            Directed { id: "late_start", trace: T17 { clients: 2, steps: vec![S17::ServerFrame, S17::ClientFrame { client: 0 }, S17::ClientFrame { client: 1 }], late_start: 2 }, symptom_oracles: vec![] },
            Directed {
                id: "peer_gone",
                trace: T17 {
                    clients: 2,
                    steps: vec![
                        S17::CEmit { client: 0, ch: 0, len: 4 },
                        S17::ClientFrame { client: 0 },
                        S17::Close { client: 0 },
                        S17::SEmit { ch: 0, len: 4 },
                        S17::SEmit { ch: 1, len: 4 },
                        S17::ServerFrame,
                        S17::Release { client: 1, to_server: false, what: Rel::All },
                        S17::ClientFrame { client: 1 },
                    ],
                    late_start: 0,
                },
                symptom_oracles: vec![],
            },
            Directed {
                id: "peer_gone_local_event",
                trace: T17 {
                    clients: 2,
                    steps: vec![
                        S17::ServerFrame,
                        S17::Close { client: 0 },
                        S17::CEmit { client: 0, ch: 0, len: 4 },
                        S17::ClientFrame { client: 0 },
                        S17::CEmit { client: 0, ch: 1, len: 4 },
                        S17::ClientFrame { client: 0 },
                    ],
                    late_start: 0,
                },
                symptom_oracles: vec![],
            },
            Directed { id: "F7", trace: T17 { clients: 1, steps: pile, late_start: 0 }, symptom_oracles: vec![] },
            Directed { id: "F7up", trace: T17 { clients: 1, steps: pile_up, late_start: 0 }, symptom_oracles: vec![] },
            Directed { id: "F16", trace: T17 { clients: 1, steps: torn, late_start: 0 }, symptom_oracles: vec![] },
            Directed { id: "F16header", trace: T17 { clients: 1, steps: torn_header, late_start: 0 }, symptom_oracles: vec![] },
        ]
    }

    fn expected_probes() -> &'static [&'static str] {
        &["pile_up", "pile_up_12plus", "segment_boundary"]
    }

    fn rule() -> &'static str {
        "each evaluation is one simulated session of the real example backend (server app + 1-2 client apps with RepliconExampleBackendPlugins) over in-memory byte pipes: 1..64 events of 0..1200 bytes on 5 channels in both directions, written over 1..4 frames and released to the receiver all at once, as message-aligned prefixes or at arbitrary byte positions. distinct_nontrivial counts distinct (node kind, number of messages handed to game logic in one receiver frame) pairs with at least one message"
    }

    fn components() -> serde_json::Value {
        json!({
            "real_code": ["bevy_replicon_example_backend (tcp framing, link conditioner queue, client/server systems)", "bevy_replicon event plumbing", "Bevy"],
            "simulated": ["TCP sockets (sim_net byte pipes behind the verif_sim_net feature)", "segment boundaries / delivery timing"],
            "note": "Instant::now() stays real; without a ConditionerConfig every message read in a frame gets the same timestamp and is popped in that frame, so the result cannot depend on it",
        })
    }
}
