//! C06, enumerated part: every byte string up to a small length on every client channel, from an
//! authorised and from an unauthorised client, against a server that keeps serving an honest client.

use serde_json::json;

use crate::engine::{Directed, Engine, Outcome};
use crate::pool::*;
use crate::repl_engine::Repl;
use crate::steps::*;

pub struct C06Enum;

/// Client channels with the protocol check: 0 acks, 1 protocol hash trigger, 2 CeOrd, 3 CeMap, 4 CtTrig,
/// 5 CeUnord, 6 CeUnrel.
const CHANNELS: u64 = 7;

fn profile() -> Profile {
    let mut p = Profile { clients: 2, slots: 2, heal_rounds: 8, ..Default::default() };
    p.app.auth = 0;
    p.server_role = Role::ServerOnly;
    p.client_role = Role::ClientOnly;
    p
}

fn handshake(c: u8) -> Vec<Step> {
    vec![
        Step::Connect { client: c },
        Step::ClientFrame { client: c, dt_ms: 16 },
        Step::DeliverAll { dir: Dir::C2S, client: c, chan: Chan::ProtoHash },
        Step::ServerFrame { tick: true, dt_ms: 16 },
    ]
}

/// Chunk layout: index -> (channel, authorised, prefix). Lengths 0..=2 give 1 + 256 chunks of
/// (1 + 256) strings... flattened as: chunk 0 = the empty string and all 1-byte strings,
/// chunk 1 + b = all 2-byte strings starting with b; thorough adds 3-byte strings on channels 0 and 1.
fn chunk(index: u64, tier_thorough: bool) -> Option<(u8, bool, Vec<Vec<u8>>)> {
    let per_cfg_2 = 257u64;
    let cfgs = CHANNELS * 2;
    let base_total = per_cfg_2 * cfgs;
    if index < base_total {
        let cfg = index / per_cfg_2;
        let k = index % per_cfg_2;
        let channel = (cfg / 2) as u8;
        let auth = cfg % 2 == 0;
        let mut strings = vec![];
        if k == 0 {
            strings.push(vec![]);
            for b in 0..=255u8 {
                strings.push(vec![b]);
            }
        } else {
            let b0 = (k - 1) as u8;
            for b1 in 0..=255u8 {
                strings.push(vec![b0, b1]);
            }
        }
        return Some((channel, auth, strings));
    }
    if !tier_thorough {
        return None;
    }
    // 3-byte strings on the acknowledgement and trigger channels: one chunk per 2-byte prefix.
    let i = index - base_total;
    let per_cfg_3 = 65536u64;
    if i >= per_cfg_3 * 4 {
        return None;
    }
    let cfg = i / per_cfg_3;
    let k = i % per_cfg_3;
    let channel = (cfg / 2) as u8;
    let auth = cfg % 2 == 0;
    let (b0, b1) = ((k >> 8) as u8, (k & 0xff) as u8);
    Some((channel, auth, (0..=255u8).map(|b2| vec![b0, b1, b2]).collect()))
}

impl Engine for C06Enum {
    type T = Trace;
    const FAMILY: &'static str = "c06enum";

    fn generate(_prop: &str, _seed: u64) -> Trace {
        Self::generate_at("C06", 0, 0)
    }

    fn generate_at(_prop: &str, _seed: u64, index: u64) -> Trace {
        let (channel, auth, strings) = chunk(index, true).unwrap_or((0, true, vec![]));
        let mut steps = vec![Step::ServerStart];
        steps.extend(handshake(0));
        steps.push(Step::Spawn { slot: 0, kinds: vec![Kind::A, Kind::B], marker: true });
        if auth {
            steps.extend(handshake(1));
        } else {
            steps.push(Step::Connect { client: 1 });
        }
        steps.push(Step::ServerFrame { tick: true, dt_ms: 16 });
        steps.push(Step::DeliverAll { dir: Dir::S2C, client: 0, chan: Chan::Updates });
        steps.push(Step::ClientFrame { client: 0, dt_ms: 16 });
        for (i, bytes) in strings.into_iter().enumerate() {
            steps.push(Step::Inject { client: 1, channel, bytes });
            steps.push(Step::ServerFrame { tick: true, dt_ms: 16 });
            if channel == 1 {
                // A parsable hash message gets the sender disconnected: bring it back (no-ops otherwise).
                steps.push(Step::Disconnect { client: 1, side: 0 });
                steps.push(Step::ClientFrame { client: 1, dt_ms: 16 });
                if auth {
                    steps.extend(handshake(1));
                } else {
                    steps.push(Step::Connect { client: 1 });
                }
            }
            if i % 64 == 63 {
                // keep the honest client busy while the garbage flows
                steps.push(Step::Mutate { slot: 0, kind: Kind::A, extra: 0 });
                steps.push(Step::DeliverAll { dir: Dir::S2C, client: 0, chan: Chan::Mutations });
                steps.push(Step::ClientFrame { client: 0, dt_ms: 16 });
                steps.push(Step::DeliverAll { dir: Dir::C2S, client: 0, chan: Chan::Acks });
            }
        }
        steps.push(Step::Heal);
        Trace { profile: profile(), steps }
    }

    fn fixed_total(tier: &str) -> Option<u64> {
        let base = 257 * CHANNELS * 2;
        Some(if tier == "thorough" { base + 65536 * 4 } else { base })
    }

    fn run(t: &Trace, verbose: bool, no_taint: bool) -> Outcome {
        Repl::run(t, verbose, no_taint)
    }
    fn len(t: &Trace) -> usize {
        Repl::len(t)
    }
    fn without(t: &Trace, from: usize, to: usize) -> Trace {
        Repl::without(t, from, to)
    }
    fn cut_after(t: &Trace, step: usize) -> Trace {
        Repl::cut_after(t, step)
    }
    fn simplify(t: &Trace) -> Vec<Trace> {
        Repl::simplify(t)
    }
    fn directed(_prop: &str) -> Vec<Directed<Trace>> {
        vec![]
    }
    fn rule() -> &'static str {
        "enumerated sub-batch: every byte string of length 0..2 (thorough: also length 3 on the acknowledgement and protocol-hash channels) is injected on each of the 7 client channels from an authorised and from an unauthorised client, one server frame per string, while an honest client keeps replicating; one evaluation is one chunk of 256-257 strings. Every string of the stated space is tried, so this sub-batch is exhaustive for that space; distinct_nontrivial counts distinct simulator state signatures as in the seeded batches"
    }
    fn components() -> serde_json::Value {
        json!({"real_code": ["bevy_replicon server receive paths (acks, client events, client triggers, protocol check)"], "simulated": ["the malicious client (raw bytes handed to RepliconServer::insert_received)", "transport, clock"]})
    }
}
