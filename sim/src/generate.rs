//! Seeded generator: one integer -> profile (swarm configuration) -> trace. The executor never draws
//! from the PRNG, so a trace can be shrunk and replayed as a file.

use crate::pool::*;
use crate::rng::Rng;
use crate::steps::*;

/// What a property's batch wants to emphasise.
#[derive(Clone, Copy, PartialEq, Eq, Debug)]
pub enum Focus {
    /// Convergence / values / structure (C01-C03).
    Replication,
    Events,
    Auth,
    Visibility,
    Crash,
    Packing,
    Acks,
    Ticks,
    PreSpawn,
    Byzantine,
}

pub fn focus_of(prop: &str) -> Focus {
    match prop {
        "C04" | "C05" => Focus::Events,
        "C06" => Focus::Byzantine,
        "C07" => Focus::Auth,
        "C08" => Focus::Visibility,
        "C09" => Focus::Crash,
        "C10" => Focus::Packing,
        "C11" => Focus::Acks,
        "C12" => Focus::Ticks,
        "C16" => Focus::PreSpawn,
        _ => Focus::Replication,
    }
}

pub struct Gen {
    r: Rng,
    focus: Focus,
    prof: Profile,
    steps: Vec<Step>,
    // enabled features of this run (swarm)
    faults: bool,
    en_vis: bool,
    en_refs: bool,
    en_marker: bool,
    en_events: bool,
    en_cevents: bool,
    en_conn: bool,
    en_restart: bool,
    en_prespawn: bool,
    en_jump: bool,
    en_drop: bool,
    en_reorder: bool,
    en_hold: bool,
    en_inject: bool,
    en_junk_ack: bool,
    kinds: Vec<Kind>,
    last_slot: u8,
    last_struct: bool,
    live: Vec<bool>,
    connected: Vec<bool>,
    prespawned: Vec<u8>,
}

const DTS: [u32; 6] = [0, 1, 5, 16, 50, 300];

impl Gen {
    pub fn new(seed: u64, focus: Focus) -> Gen {
        let mut r = Rng::new(seed);
        let mut app = AppCfg::default();
        let clients = match focus {
            Focus::Events | Focus::Auth | Focus::Visibility => r.weighted(&[3, 4, 2]) as u8 + 1,
            Focus::PreSpawn => r.weighted(&[2, 5, 1]) as u8 + 1,
            _ => r.weighted(&[6, 3, 1]) as u8 + 1,
        };
        app.vis = match focus {
            Focus::Visibility => r.weighted(&[0, 1, 1]) as u8 + 0,
            _ => r.weighted(&[4, 3, 3]) as u8,
        };
        if focus == Focus::Visibility {
            app.vis = 1 + r.below(2) as u8;
        }
        app.tick_policy = r.weighted(&[7, 2, 1]) as u8;
        app.rate = r.pick(&[10u16, 30, 64]);
        app.auth = match focus {
            Focus::Auth => r.weighted(&[4, 2, 4]) as u8,
            Focus::Byzantine => r.weighted(&[4, 3, 3]) as u8,
            _ => r.weighted(&[2, 6, 2]) as u8,
        };
        app.timeout_ms = match focus {
            Focus::Acks => r.pick(&[30u64, 100, 1000, 10_000]),
            _ => r.pick(&[30u64, 1000, 10_000]),
        };
        app.period = r.pick(&[2u32, 3, 4]);
        app.track = match focus {
            Focus::Ticks => true,
            Focus::Packing | Focus::Acks => r.chance(50),
            _ => r.chance(25),
        };
        app.history = match focus {
            Focus::Ticks => r.chance(50),
            _ => r.chance(8),
        };
        app.sync_related = match focus {
            Focus::Packing => r.chance(70),
            _ => r.chance(35),
        };
        let sizes = [64usize, 200, 1200];
        let small = matches!(focus, Focus::Packing | Focus::Ticks);
        let mut max_size = [1200usize; 3];
        for m in max_size.iter_mut() {
            *m = if small { sizes[r.weighted(&[4, 4, 2])] } else { sizes[r.weighted(&[2, 2, 6])] };
        }
        let slots = if matches!(focus, Focus::Packing) { r.range(3, 6) } else if r.chance(60) { r.range(1, 3) } else { r.range(3, 6) } as u8;
        let server_role = if r.chance(30) { Role::Full } else { Role::ServerOnly };
        let client_role = if r.chance(30) { Role::Full } else { Role::ClientOnly };
        let heal_rounds = 6 + 2 * app.period + 5;
        let mut wrong_proto = 0u8;
        if app.auth == 0 && matches!(focus, Focus::Auth | Focus::Byzantine) {
            for i in 0..clients {
                if r.chance(30) {
                    wrong_proto |= 1 << i;
                }
            }
        }
        let wrong_variant = if wrong_proto != 0 { r.range(1, 4) as u8 } else { 1 };
        let prof = Profile { app, clients, slots, max_size, server_role, client_role, heal_rounds, wrong_proto, wrong_variant };

        let faults = r.chance(80);
        let mut kinds = vec![Kind::A];
        for k in [Kind::B, Kind::S, Kind::Imm, Kind::O, Kind::P, Kind::Big, Kind::X, Kind::Y] {
            let p = match (focus, k) {
                (Focus::Packing, Kind::Big) => 90,
                (Focus::Ticks, Kind::Big) => 70,
                (_, Kind::B) => 70,
                (_, Kind::Big) => 30,
                _ => 35,
            };
            if r.chance(p) {
                kinds.push(k);
            }
        }
        let f = |r: &mut Rng, p: u32| r.chance(p);
        let g = Gen {
            focus,
            faults,
            en_vis: prof.app.vis != 0 && f(&mut r, if focus == Focus::Visibility { 100 } else { 70 }),
            en_refs: f(&mut r, if focus == Focus::Packing { 70 } else { 35 }),
            en_marker: f(&mut r, 50),
            en_events: matches!(focus, Focus::Events | Focus::Auth) || f(&mut r, 25),
            en_cevents: matches!(focus, Focus::Events | Focus::Byzantine) || f(&mut r, 20),
            en_conn: matches!(focus, Focus::Crash | Focus::Auth) || f(&mut r, 25),
            en_restart: matches!(focus, Focus::Crash) && f(&mut r, 60) || f(&mut r, 10),
            en_prespawn: focus == Focus::PreSpawn || f(&mut r, 10),
            en_jump: (focus == Focus::Ticks && f(&mut r, 70)) || f(&mut r, 8),
            en_drop: faults && f(&mut r, 70),
            en_reorder: faults && f(&mut r, 70),
            en_hold: faults && f(&mut r, 80),
            en_inject: focus == Focus::Byzantine,
            en_junk_ack: matches!(focus, Focus::Acks | Focus::Packing | Focus::Replication | Focus::Ticks) && faults && f(&mut r, 35),
            kinds,
            last_slot: 0,
            last_struct: false,
            live: vec![false; slots as usize],
            connected: vec![false; clients as usize],
            prespawned: vec![0; clients as usize],
            prof,
            steps: vec![],
            r,
        };
        g
    }

    fn dt(&mut self) -> u32 {
        if self.r.chance(70) {
            16
        } else if self.r.chance(3) {
            self.r.pick(&[1500u32, 11_000])
        } else {
            self.r.pick(&DTS)
        }
    }

    fn slot(&mut self) -> u8 {
        // Bias: stay on the slot of the previous structural op.
        if self.last_struct && self.r.chance(60) {
            self.last_slot
        } else {
            self.r.below(self.prof.slots as usize) as u8
        }
    }

    fn kind(&mut self) -> Kind {
        let k = self.kinds.clone();
        self.r.pick(&k)
    }

    fn big_len(&mut self) -> u16 {
        match self.focus {
            Focus::Packing | Focus::Ticks => self.r.pick(&[4u16, 20, 40, 60, 100, 180, 400, 1000, 1300]),
            _ => self.r.pick(&[4u16, 40, 150, 1100]),
        }
    }

    fn server_op(&mut self) {
        let slot = self.slot();
        let live = self.live[slot as usize];
        let nclients = self.prof.clients;
        let mut w = vec![
            10u32, // spawn
            4,     // despawn
            14,    // mutate
            6,     // insert
            5,     // remove
            if self.en_marker { 4 } else { 0 },
            if self.en_vis { 8 } else { 0 },
            if self.en_refs { 5 } else { 0 },
            if self.en_events { 6 } else { 0 },
            if self.en_prespawn { 5 } else { 0 },
            if self.en_jump { 2 } else { 0 },
        ];
        if !live {
            w[0] = 30;
        }
        match self.focus {
            Focus::Packing => {
                w[2] = 30;
                if self.en_refs {
                    w[7] = 14;
                }
            }
            Focus::Ticks | Focus::Acks => {
                w[2] = 30;
            }
            Focus::Visibility => w[6] = 16,
            Focus::Events => w[8] = 16,
            Focus::PreSpawn => w[9] = 12,
            _ => {}
        }
        self.last_struct = false;
        match self.r.weighted(&w) {
            0 => {
                let n = self.r.weighted(&[2, 5, 3, 2]);
                let mut kinds = vec![];
                for _ in 0..n {
                    let k = self.kind();
                    if !kinds.contains(&k) {
                        kinds.push(k);
                    }
                }
                let marker = !self.en_marker || self.r.chance(85);
                // Pre-spawn pattern: the client spawned in advance, the server maps in the same window.
                self.steps.push(Step::Spawn { slot, kinds, marker });
                self.live[slot as usize] = true;
                if self.en_prespawn && self.r.chance(60) {
                    let c = self.r.below(nclients as usize) as u8;
                    let cslot = self.r.below(4) as u8;
                    if self.r.chance(70) {
                        self.steps.push(Step::PreSpawn { client: c, cslot });
                    }
                    if self.r.chance(30) {
                        self.steps.push(Step::ServerFrame { tick: false, dt_ms: 16 });
                    }
                    self.steps.push(Step::MapPreSpawn { client: c, slot, cslot });
                    if self.r.chance(25) {
                        self.steps.push(Step::DespawnLocal { client: c, cslot });
                    }
                }
                self.struct_op(slot);
            }
            1 => {
                self.steps.push(Step::Despawn { slot });
                self.live[slot as usize] = false;
                self.struct_op(slot);
            }
            2 => {
                let kind = self.kind();
                let extra = self.big_len();
                self.steps.push(Step::Mutate { slot, kind, extra });
                self.last_slot = slot;
                // Several entities mutated in the same tick window (message splitting, related groups).
                if matches!(self.focus, Focus::Packing | Focus::Ticks | Focus::Acks) && self.r.chance(50) {
                    for s in 0..self.prof.slots {
                        if s != slot && self.r.chance(60) {
                            let kind = if self.kinds.contains(&Kind::Big) && self.r.chance(60) { Kind::Big } else { self.kind() };
                            let extra = self.big_len();
                            self.steps.push(Step::Mutate { slot: s, kind, extra });
                        }
                    }
                }
            }
            3 => {
                let kind = self.kind();
                let extra = self.big_len();
                self.steps.push(Step::Insert { slot, kind, extra });
                self.struct_op(slot);
            }
            4 => {
                let kind = if self.en_refs && self.r.chance(20) { self.r.pick(&[Kind::Ref, Kind::Link]) } else { self.kind() };
                self.steps.push(Step::Remove { slot, kind });
                self.struct_op(slot);
            }
            5 if self.r.chance(20) => self.steps.push(Step::MarkerReinsert { slot }),
            5 => {
                if self.r.chance(50) {
                    self.steps.push(Step::MarkerOff { slot });
                } else {
                    self.steps.push(Step::MarkerOn { slot });
                }
                self.struct_op(slot);
            }
            6 => {
                let client = self.r.below(nclients as usize) as u8;
                let visible = self.r.chance(50);
                self.steps.push(Step::SetVis { client, slot, visible });
                if self.r.chance(25) {
                    // repeated / cancelling call inside the same window
                    let visible = self.r.chance(50);
                    self.steps.push(Step::SetVis { client, slot, visible });
                }
                self.struct_op(slot);
            }
            7 => {
                let target = self.r.below(self.prof.slots as usize) as u8;
                let kind = if self.focus == Focus::Packing && self.r.chance(80) { Kind::Link } else { self.r.pick(&[Kind::Ref, Kind::Link]) };
                self.steps.push(Step::Point { slot, kind, target });
                self.struct_op(slot);
            }
            8 => self.emit(),
            9 => {
                let c = self.r.below(nclients as usize) as u8;
                let cslot = self.r.below(4) as u8;
                match self.r.below(3) {
                    0 => self.steps.push(Step::PreSpawn { client: c, cslot }),
                    1 => self.steps.push(Step::MapPreSpawn { client: c, slot, cslot }),
                    _ => self.steps.push(Step::DespawnLocal { client: c, cslot }),
                }
            }
            _ => {
                let k = self.r.pick(&[1u32, 2, 30, 62, 63, 64, 65, 66, 100, 130]);
                self.steps.push(Step::TickJump { k });
            }
        }
    }

    /// Biased pattern: two related groups exist for a while, then an edge joins them and members of
    /// both former groups mutate in the same tick with payloads that do not fit one message.
    fn recipe_join_groups(&mut self) {
        if self.prof.slots < 4 {
            return;
        }
        let mut order: Vec<u8> = (0..self.prof.slots).collect();
        for i in (1..order.len()).rev() {
            let j = self.r.below(i + 1);
            order.swap(i, j);
        }
        let (a, b, c, d) = (order[0], order[1], order[2], order[3]);
        for s in [a, b, c, d] {
            if !self.live[s as usize] {
                self.steps.push(Step::Spawn { slot: s, kinds: vec![Kind::Big, Kind::A], marker: true });
                self.live[s as usize] = true;
            }
        }
        self.steps.push(Step::Point { slot: a, kind: Kind::Link, target: b });
        self.steps.push(Step::Point { slot: c, kind: Kind::Link, target: d });
        for _ in 0..self.r.range(1, 2) {
            self.steps.push(Step::ServerFrame { tick: true, dt_ms: 16 });
            for cl in 0..self.prof.clients {
                self.network(cl);
                self.steps.push(Step::ClientFrame { client: cl, dt_ms: 16 });
                self.uplink(cl);
            }
        }
        // join (b gets its first relationship; both ends are already part of a graph)
        let (x, y) = if self.r.chance(50) { (b, c) } else { (d, a) };
        if self.r.chance(70) {
            self.steps.push(Step::Point { slot: x, kind: Kind::Link, target: y });
        }
        if self.r.chance(40) {
            // the marker re-inserted on a member (source or target of an edge) must leave the groups intact
            let m = self.r.pick(&[a, b, c, d]);
            self.steps.push(Step::MarkerReinsert { slot: m });
        }
        if self.r.chance(30) {
            self.steps.push(Step::ServerFrame { tick: false, dt_ms: 16 });
        }
        for s in [a, b, c, d] {
            if self.r.chance(75) {
                let extra = self.r.pick(&[30u16, 60, 100, 180, 400, 700]);
                self.steps.push(Step::Mutate { slot: s, kind: Kind::Big, extra });
            }
        }
    }

    /// Biased pattern: an entity the clients already hold re-points its (mutable, mapped) reference to an
    /// entity spawned in the same tick and loses a component in that tick, so the new reference travels in
    /// the update message as an in-place mutation, possibly ahead of the target's own spawn record.
    fn recipe_repoint_with_removal(&mut self) {
        if self.prof.slots < 3 {
            return;
        }
        let mut order: Vec<u8> = (0..self.prof.slots).collect();
        for i in (1..order.len()).rev() {
            let j = self.r.below(i + 1);
            order.swap(i, j);
        }
        let (a, b, c) = (order[0], order[1], order[2]);
        for s in [a, b] {
            if !self.live[s as usize] {
                self.steps.push(Step::Spawn { slot: s, kinds: vec![Kind::A, Kind::B], marker: true });
                self.live[s as usize] = true;
            }
        }
        self.steps.push(Step::Insert { slot: a, kind: Kind::B, extra: 0 });
        self.steps.push(Step::Point { slot: a, kind: Kind::Ref, target: b });
        if self.live[c as usize] {
            self.steps.push(Step::Despawn { slot: c });
            self.live[c as usize] = false;
        }
        for _ in 0..self.r.range(1, 2) {
            self.steps.push(Step::ServerFrame { tick: true, dt_ms: 16 });
            for cl in 0..self.prof.clients {
                self.network(cl);
                self.steps.push(Step::ClientFrame { client: cl, dt_ms: 16 });
                self.uplink(cl);
            }
        }
        let n = self.r.range(0, 2);
        let mut kinds = vec![];
        for _ in 0..n {
            let k = self.kind();
            if !kinds.contains(&k) {
                kinds.push(k);
            }
        }
        let mut ops = vec![
            Step::Remove { slot: a, kind: Kind::B },
            Step::Spawn { slot: c, kinds, marker: true },
        ];
        if self.r.chance(50) {
            ops.swap(0, 1);
        }
        self.steps.extend(ops);
        self.live[c as usize] = true;
        self.steps.push(Step::Point { slot: a, kind: Kind::Ref, target: c });
        self.struct_op(a);
    }

    /// Biased pattern: a client first learns of a server entity only through a reference (it reserves a
    /// placeholder for it), then the entity starts to replicate in the tick in which the server also maps it
    /// to an entity that client pre-spawned.
    fn recipe_reference_then_map(&mut self) {
        if self.prof.slots < 2 {
            return;
        }
        let t = self.slot();
        let r = (t + 1 + self.r.below(self.prof.slots as usize - 1) as u8) % self.prof.slots;
        let c = self.r.below(self.prof.clients as usize) as u8;
        let cslot = self.r.below(4) as u8;
        if self.live[t as usize] {
            self.steps.push(Step::Despawn { slot: t });
        }
        let hide = self.prof.app.vis == 1 && self.r.chance(50);
        self.steps.push(Step::Spawn { slot: t, kinds: vec![Kind::A], marker: hide });
        self.live[t as usize] = true;
        if hide {
            self.steps.push(Step::SetVis { client: c, slot: t, visible: false });
        }
        if !self.live[r as usize] {
            self.steps.push(Step::Spawn { slot: r, kinds: vec![Kind::B], marker: true });
            self.live[r as usize] = true;
        }
        self.steps.push(Step::Point { slot: r, kind: Kind::Ref, target: t });
        for _ in 0..self.r.range(1, 2) {
            self.steps.push(Step::ServerFrame { tick: true, dt_ms: 16 });
            for cl in 0..self.prof.clients {
                self.network(cl);
                self.steps.push(Step::ClientFrame { client: cl, dt_ms: 16 });
                self.uplink(cl);
            }
        }
        self.steps.push(Step::PreSpawn { client: c, cslot });
        let mut ops = vec![
            Step::MapPreSpawn { client: c, slot: t, cslot },
            if hide { Step::SetVis { client: c, slot: t, visible: true } } else { Step::MarkerOn { slot: t } },
        ];
        if self.r.chance(50) {
            ops.swap(0, 1);
        }
        self.steps.extend(ops);
        self.struct_op(t);
    }

    /// Biased pattern: the update channel of one client lags behind its event channels by several update
    /// ticks (events of 2-3 ticks are queued on the client, each behind its own update message), then the held
    /// update messages arrive together with one more event.
    fn recipe_lagging_updates(&mut self) {
        let c = self.r.below(self.prof.clients as usize) as u8;
        let ev = self.r.pick(&[SEv::Ord, SEv::Ord, SEv::Trig, SEv::Unord]);
        let rounds = self.r.range(2, 3);
        for _ in 0..rounds {
            // a structural change, so that the tick has an update message for the event to wait for
            let slot = self.slot();
            if self.live[slot as usize] && self.r.chance(50) {
                let kind = self.kind();
                self.steps.push(Step::Insert { slot, kind, extra: 8 });
            } else {
                if self.live[slot as usize] {
                    self.steps.push(Step::Despawn { slot });
                }
                self.steps.push(Step::Spawn { slot, kinds: vec![Kind::A], marker: true });
                self.live[slot as usize] = true;
            }
            let target = if ev == SEv::Ord && self.r.chance(30) { Some(slot) } else { None };
            self.steps.push(Step::Emit { ev, mode: Mode::Broadcast, target });
            self.steps.push(Step::ServerFrame { tick: true, dt_ms: 16 });
            self.steps.push(Step::DeliverAll { dir: Dir::S2C, client: c, chan: Chan::SEv(ev) });
            self.steps.push(Step::ClientFrame { client: c, dt_ms: 16 });
        }
        self.steps.push(Step::Emit { ev, mode: Mode::Broadcast, target: None });
        self.steps.push(Step::ServerFrame { tick: self.r.chance(70), dt_ms: 16 });
        self.steps.push(Step::DeliverAll { dir: Dir::S2C, client: c, chan: Chan::Updates });
        self.steps.push(Step::DeliverAll { dir: Dir::S2C, client: c, chan: Chan::SEv(ev) });
        self.steps.push(Step::ClientFrame { client: c, dt_ms: 16 });
        self.steps.push(Step::ClientFrame { client: c, dt_ms: 16 });
    }

    /// Connection life-cycle events with the given per-call probabilities (%): a client session ending
    /// (either end first, the other noticing later) and a server stop/start with clients that keep
    /// running and receiving for a while.
    fn lifecycle(&mut self, p_conn: u32, p_restart: u32) {
        let nclients = self.prof.clients;
        let boost = if self.focus == Focus::Crash { 1 } else { 0 };
        if self.en_conn && self.r.chance(p_conn >> (1 - boost)) {
            let c = self.r.below(nclients as usize) as u8;
            if self.connected[c as usize] {
                let side = self.r.weighted(&[5, 3, 3]) as u8;
                self.steps.push(Step::Disconnect { client: c, side });
                if side != 0 {
                    // the other end notices a bit later; traffic of the dying session may still flow
                    for _ in 0..self.r.below(3) {
                        match self.r.below(3) {
                            0 => self.steps.push(Step::ServerFrame { tick: self.r.chance(50), dt_ms: 16 }),
                            1 => self.steps.push(Step::ClientFrame { client: c, dt_ms: 16 }),
                            _ => {
                                if side == 2 {
                                    self.network(c);
                                } else {
                                    self.uplink(c);
                                }
                            }
                        }
                    }
                    self.steps.push(Step::Disconnect { client: c, side: 0 });
                }
                self.connected[c as usize] = false;
                // at least one frame before reconnecting
                self.steps.push(Step::ClientFrame { client: c, dt_ms: 16 });
                if self.r.chance(60) {
                    self.steps.push(Step::ServerFrame { tick: self.r.chance(50), dt_ms: 16 });
                }
                if self.r.chance(75) {
                    self.connect(c);
                }
            } else {
                self.connect(c);
            }
        }
        if self.en_restart && self.r.chance(p_restart >> (1 - boost)) {
            self.steps.push(Step::ServerStop);
            let mut pending: Vec<u8> = (0..nclients).filter(|c| self.connected[*c as usize]).collect();
            for c in 0..nclients {
                self.connected[c as usize] = false;
            }
            let mut server_frames = 0;
            // Clients notice at different times; until then they keep running and receiving what was in flight.
            for _ in 0..self.r.range(1, 5) {
                match self.r.below(5) {
                    0 => {
                        self.steps.push(Step::ServerFrame { tick: false, dt_ms: 16 });
                        server_frames += 1;
                    }
                    1 => self.server_op(),
                    _ => {
                        if !pending.is_empty() {
                            let i = self.r.below(pending.len());
                            let c = pending[i];
                            match self.r.below(3) {
                                0 => self.network(c),
                                1 => self.steps.push(Step::ClientFrame { client: c, dt_ms: 16 }),
                                _ => {
                                    pending.remove(i);
                                    self.steps.push(Step::Disconnect { client: c, side: 0 });
                                    self.steps.push(Step::ClientFrame { client: c, dt_ms: 16 });
                                }
                            }
                        }
                    }
                }
            }
            if server_frames == 0 {
                self.steps.push(Step::ServerFrame { tick: false, dt_ms: 16 });
            }
            for c in pending {
                self.steps.push(Step::Disconnect { client: c, side: 0 });
                self.steps.push(Step::ClientFrame { client: c, dt_ms: 16 });
            }
            if self.r.chance(40) {
                self.server_op();
                self.steps.push(Step::ServerFrame { tick: false, dt_ms: 16 });
            }
            self.steps.push(Step::ServerStart);
            for c in 0..nclients {
                if self.r.chance(80) {
                    self.connect(c);
                }
            }
        }
    }

    fn struct_op(&mut self, slot: u8) {
        self.last_slot = slot;
        self.last_struct = true;
    }

    fn emit(&mut self) {
        let n = self.prof.clients;
        let ev = ALL_SEV[self.r.weighted(&[4, 2, 2, 2, 3])];
        let mode = match self.r.weighted(&[5, 2, 3]) {
            0 => Mode::Broadcast,
            1 => Mode::Except(self.r.below(n as usize + 1) as u8),
            _ => Mode::Direct(self.r.below(n as usize + 1) as u8),
        };
        let target = if matches!(ev, SEv::Ord | SEv::Trig) && self.r.chance(60) { Some(self.slot()) } else { None };
        self.steps.push(Step::Emit { ev, mode, target });
    }

    fn client_emit(&mut self) {
        let client = self.r.below(self.prof.clients as usize) as u8;
        let ev = ALL_CEV[self.r.weighted(&[3, 2, 3, 2, 2])];
        let target = if matches!(ev, CEv::Map) || (ev == CEv::Trig && self.r.chance(80)) { Some(self.slot()) } else { None };
        self.steps.push(Step::ClientEmit { client, ev, target });
    }

    fn network(&mut self, c: u8) {
        // Server -> client delivery decisions of this round.
        let mut chans = vec![Chan::Updates, Chan::Mutations];
        if self.prof.app.auth == 0 {
            chans.push(Chan::Mismatch);
        }
        if self.en_events {
            for k in ALL_SEV {
                chans.push(Chan::SEv(k));
            }
        }
        for chan in chans {
            if !self.faults {
                self.steps.push(Step::DeliverAll { dir: Dir::S2C, client: c, chan });
                continue;
            }
            let hold_p = match chan {
                Chan::Updates => {
                    if self.en_hold {
                        45
                    } else {
                        5
                    }
                }
                _ => {
                    if self.en_hold {
                        25
                    } else {
                        5
                    }
                }
            };
            if self.r.chance(hold_p) {
                continue;
            }
            let n = self.r.weighted(&[1, 5, 3, 2]);
            if n == 3 {
                self.steps.push(Step::DeliverAll { dir: Dir::S2C, client: c, chan });
                continue;
            }
            for _ in 0..n.max(1) {
                let pick = if self.en_reorder { self.r.below(4) as u8 } else { 0 };
                let unreliable = matches!(chan, Chan::Mutations | Chan::Mismatch | Chan::SEv(SEv::Unrel));
                if unreliable && self.en_drop && self.r.chance(20) {
                    self.steps.push(Step::Drop { dir: Dir::S2C, client: c, chan, pick });
                } else {
                    self.steps.push(Step::Deliver { dir: Dir::S2C, client: c, chan, pick });
                }
            }
        }
    }

    fn uplink(&mut self, c: u8) {
        let mut chans = vec![Chan::Acks];
        if self.prof.app.auth == 0 {
            chans.push(Chan::ProtoHash);
        }
        if self.en_cevents || self.en_prespawn {
            for k in ALL_CEV {
                chans.push(Chan::CEv(k));
            }
        }
        for chan in chans {
            if self.faults && self.en_hold && self.r.chance(if chan == Chan::Acks { 40 } else { 20 }) {
                continue;
            }
            let kind = match chan {
                Chan::CEv(CEv::Unord) => 1,
                Chan::CEv(CEv::Unrel) => 2,
                _ => 0,
            };
            if self.faults && kind != 0 && self.r.chance(60) {
                // unordered / unreliable uplink: arbitrary order, loss on the unreliable channel
                for _ in 0..self.r.range(1, 3) {
                    let pick = if self.en_reorder { self.r.below(4) as u8 } else { 0 };
                    if kind == 2 && self.en_drop && self.r.chance(25) {
                        self.steps.push(Step::Drop { dir: Dir::C2S, client: c, chan, pick });
                    } else {
                        self.steps.push(Step::Deliver { dir: Dir::C2S, client: c, chan, pick });
                    }
                }
                continue;
            }
            self.steps.push(Step::DeliverAll { dir: Dir::C2S, client: c, chan });
        }
    }

    fn connect(&mut self, c: u8) {
        self.steps.push(Step::Connect { client: c });
        self.connected[c as usize] = true;
        if self.prof.app.auth == 2 {
            match self.r.weighted(&[5, 3, 2]) {
                0 => self.steps.push(Step::Authorize { client: c }),
                1 => {} // late: scheduled by the main loop
                _ => {} // never (or much later)
            }
        }
    }

    fn junk(&mut self) -> Vec<u8> {
        match self.r.below(4) {
            0 => vec![],
            1 => vec![0x80],
            2 => vec![0xff, 0xff],
            _ => vec![0xff, 0xff, 0xff, 0xff, 0xff, 0xff, 0xff, 0xff, 0xff, 0x7f],
        }
    }

    /// Malformed bytes of `client` ahead of a real message of another client on the same channel, both
    /// handled by the same server frame.
    fn inject_ahead_of_honest(&mut self, client: u8) {
        let n = self.prof.clients;
        let other = (client + 1 + self.r.below(n as usize - 1) as u8) % n;
        let nproto = (self.prof.app.auth == 0) as usize;
        let bytes = self.junk();
        if nproto == 1 && self.r.chance(30) {
            self.steps.push(Step::ClientFrame { client: other, dt_ms: 16 });
            self.steps.push(Step::Inject { client, channel: 1, bytes });
            self.steps.push(Step::DeliverAll { dir: Dir::C2S, client: other, chan: Chan::ProtoHash });
        } else {
            let i = self.r.below(ALL_CEV.len());
            let ev = ALL_CEV[i];
            let target = if matches!(ev, CEv::Map) || (ev == CEv::Trig && self.r.chance(50)) { Some(self.slot()) } else { None };
            self.steps.push(Step::ClientEmit { client: other, ev, target });
            self.steps.push(Step::ClientFrame { client: other, dt_ms: 16 });
            self.steps.push(Step::Inject { client, channel: (1 + nproto + i) as u8, bytes });
            self.steps.push(Step::DeliverAll { dir: Dir::C2S, client: other, chan: Chan::CEv(ev) });
        }
    }

    fn inject(&mut self) {
        let client = self.r.below(self.prof.clients as usize) as u8;
        if self.prof.clients >= 2 && self.r.chance(15) {
            self.inject_ahead_of_honest(client);
            return;
        }
        if self.r.chance(45) {
            // Structure-aware: mutate a real message of this client that is still in flight.
            let mut chans = vec![Chan::Acks, Chan::CEv(CEv::Ord), Chan::CEv(CEv::Map), Chan::CEv(CEv::Trig)];
            if self.prof.app.auth == 0 {
                chans.push(Chan::ProtoHash);
            }
            let chan = self.r.pick(&chans);
            let kind = self.r.below(5) as u8;
            let a = self.r.below(64) as u16;
            let b = self.r.pick(&[0u8, 1, 0x7f, 0x80, 0xff, 0xfe]);
            self.steps.push(Step::InjectMut { client, chan, kind, a, b });
            return;
        }
        let nch = 1 + (self.prof.app.auth == 0) as usize + ALL_CEV.len();
        let channel = self.r.below(nch) as u8;
        let len = self.r.weighted(&[1, 4, 4, 3, 3, 2, 1]);
        let len = match len {
            6 => self.r.range(8, 40),
            x => x,
        };
        let mut bytes = vec![0u8; len];
        for b in bytes.iter_mut() {
            *b = match self.r.below(6) {
                0 => 0xff,
                1 => 0x80,
                2 => 0x01,
                3 => 0x7f,
                _ => self.r.below(256) as u8,
            };
        }
        // a well-formed target list whose entity has boundary index / generation varints
        if self.r.chance(12) {
            let gener = self.r.pick(&[0x7fff_fffeu32, 0x7fff_ffff, 0x8000_0000, 0xefff_ffff, 0xffff_fffe, 0xffff_ffff]);
            let idx = self.r.pick(&[1u64, 0x7fff_ffff, 0xffff_ffff, 0x1_0000_0000, u64::MAX >> 1]);
            bytes = vec![1];
            let mut put = |mut x: u64, out: &mut Vec<u8>| loop {
                let b = (x & 0x7f) as u8;
                x >>= 7;
                if x == 0 {
                    out.push(b);
                    break;
                }
                out.push(b | 0x80);
            };
            put((idx << 1) | 1, &mut bytes);
            put(gener as u64, &mut bytes);
            bytes.extend(std::iter::repeat(0u8).take(self.r.below(3)));
        }
        // varint extremes
        if self.r.chance(15) {
            bytes = vec![0xff, 0xff, 0xff, 0xff, 0xff, 0xff, 0xff, 0xff, 0xff, 0x01];
            bytes.extend(std::iter::repeat(self.r.below(256) as u8).take(self.r.below(4)));
        }
        self.steps.push(Step::Inject { client, channel, bytes });
    }

    pub fn generate(mut self) -> Trace {
        // Prologue.
        self.steps.push(Step::ServerStart);
        if self.r.chance(40) {
            // world exists before anyone connects
            for _ in 0..self.r.range(1, 3) {
                self.server_op();
            }
            if self.r.chance(50) {
                self.steps.push(Step::ServerFrame { tick: true, dt_ms: 16 });
            }
        }
        let nclients = self.prof.clients;
        for c in 0..nclients {
            if c == 0 || self.r.chance(60) {
                self.connect(c);
            }
        }
        if self.en_inject && nclients >= 2 && self.prof.app.auth == 0 && self.r.chance(20) {
            // Malformed handshake bytes of one fresh connection ahead of another one's real hash.
            let bytes = self.junk();
            let (a, b) = if self.r.chance(50) { (0u8, 1u8) } else { (1, 0) };
            self.steps.push(Step::ClientFrame { client: b, dt_ms: 16 });
            self.steps.push(Step::Inject { client: a, channel: 1, bytes });
            self.steps.push(Step::DeliverAll { dir: Dir::C2S, client: b, chan: Chan::ProtoHash });
        }
        let len = if self.r.chance(75) { self.r.range(2, 8) } else if self.r.chance(80) { self.r.range(8, 20) } else { self.r.range(20, 45) };
        let mut i = 0;
        while i < len {
            i += 1;
            // world edits (0..3) in this frame window
            let nops = self.r.weighted(&[3, 6, 3, 1]);
            for _ in 0..nops {
                self.server_op();
            }
            if self.focus == Focus::Packing && self.prof.app.sync_related && self.r.chance(10) {
                self.recipe_join_groups();
            }
            if self.focus == Focus::Events && self.r.chance(6) {
                self.recipe_lagging_updates();
            }
            if self.focus == Focus::PreSpawn && self.r.chance(8) {
                self.recipe_reference_then_map();
            }
            if self.en_refs && matches!(self.focus, Focus::Replication | Focus::Visibility) && self.r.chance(6) {
                self.recipe_repoint_with_removal();
            }
            if self.en_cevents && self.r.chance(25) {
                self.client_emit();
            }
            if self.en_inject && self.r.chance(40) {
                self.inject();
            }
            if self.en_junk_ack && self.r.chance(15) {
                // Acknowledgements naming messages that were never sent (indices far above anything in
                // flight): they must not change what the server considers received.
                let client = self.r.below(nclients as usize) as u8;
                let n = self.r.range(1, 4);
                let mut bytes = vec![];
                for _ in 0..n {
                    let idx: u16 = 0x4000 + self.r.below(0xbfff) as u16;
                    bytes.extend_from_slice(&idx.to_le_bytes());
                }
                self.steps.push(Step::Inject { client, channel: 0, bytes });
            }
            // life-cycle
            self.lifecycle(12, 6);
            if self.prof.app.auth == 2 && self.r.chance(15) {
                let c = self.r.below(nclients as usize) as u8;
                self.steps.push(Step::Authorize { client: c });
            }
            // server frame
            let tick = if self.last_struct && self.faults { self.r.chance(35) } else { self.r.chance(65) };
            let dt = self.dt();
            self.steps.push(Step::ServerFrame { tick, dt_ms: dt });
            // network + client frames
            // Crash points are not only at iteration boundaries: right after the server frame (fresh
            // messages queued), after the downlink deliveries (messages handed over but not processed)
            // and after the client frame (acks and events on their way).
            self.lifecycle(4, 2);
            for c in 0..nclients {
                self.network(c);
                self.lifecycle(3, 1);
                let stall = self.faults && self.r.chance(25);
                if !stall {
                    let dt = self.dt();
                    self.steps.push(Step::ClientFrame { client: c, dt_ms: dt });
                }
                if self.prof.app.history && self.r.chance(30) {
                    let slot = self.r.below(self.prof.slots as usize) as u8;
                    self.steps.push(Step::ClientMark { client: c, slot });
                }
                self.lifecycle(3, 1);
                self.uplink(c);
            }
        }
        // Make sure everybody that should be authorised is, then stop the faults.
        if self.prof.app.auth == 2 && self.r.chance(80) {
            for c in 0..nclients {
                self.steps.push(Step::Authorize { client: c });
            }
        }
        self.steps.push(Step::Heal);
        Trace { profile: self.prof, steps: self.steps }
    }
}

/// The batch of a property is a mixture: mostly its own focus, partly the neighbouring ones, so that
/// e.g. the convergence check also sees message splitting, ack games and crashes.
pub fn mixed_focus(seed: u64, prop: &str) -> Focus {
    let own = focus_of(prop);
    let mut r = Rng::new(seed ^ 0x5EED_F0C5);
    let table: &[(Focus, u32)] = match prop {
        "C01" | "C02" | "C03" => &[
            (Focus::Replication, 45),
            (Focus::Packing, 15),
            (Focus::Acks, 10),
            (Focus::Visibility, 10),
            (Focus::Crash, 10),
            (Focus::Ticks, 5),
            (Focus::PreSpawn, 5),
        ],
        "C09" => &[(Focus::Crash, 75), (Focus::Events, 10), (Focus::Packing, 5), (Focus::Acks, 5), (Focus::Auth, 5)],
        "C10" => &[(Focus::Packing, 80), (Focus::Ticks, 10), (Focus::Replication, 10)],
        "C11" => &[(Focus::Acks, 70), (Focus::Packing, 20), (Focus::Replication, 10)],
        "C04" | "C05" => &[(Focus::Events, 75), (Focus::Crash, 10), (Focus::Auth, 10), (Focus::Visibility, 5)],
        "C07" => &[(Focus::Auth, 80), (Focus::Events, 10), (Focus::Crash, 10)],
        "C08" => &[(Focus::Visibility, 85), (Focus::Crash, 5), (Focus::Packing, 5), (Focus::Events, 5)],
        _ => return own,
    };
    let w: Vec<u32> = table.iter().map(|x| x.1).collect();
    table[r.weighted(&w)].0
}

/// A trace without any connection life-cycle faults (base traces of the crash-point enumeration).
pub fn generate_base(seed: u64) -> Trace {
    let focus = [Focus::Replication, Focus::Events, Focus::Packing, Focus::Visibility, Focus::Acks][(seed % 5) as usize];
    let mut g = Gen::new(seed, focus);
    g.en_conn = false;
    g.en_restart = false;
    g.generate()
}

pub fn generate(seed: u64, prop: &str) -> Trace {
    Gen::new(seed, mixed_focus(seed, prop)).generate()
}
