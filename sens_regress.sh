#!/bin/bash
# Re-runs every kept seeded change (seeded/<id>/patch.diff) against the quick check of the property it was
# made for, in a scratch copy outside /repo and /verif. Usage: sens_regress.sh [lane lanes]  (e.g. "0 2", "1 2")
cd /verif
LANE=${1:-0}; LANES=${2:-1}
export S=/tmp/verif_mut_$LANE
i=0
for d in seeded/*/; do
  i=$((i+1)); [ $((i % LANES)) -eq $LANE ] || continue
  [ -f $d/meta.json ] || continue
  id=$(basename $d); prop=$(python3 -c "import json;print(json.load(open('$d/meta.json'))['breaks_property'])")
  echo "######## $id -> $prop"
  ./mutants.sh patch /verif/$d/patch.diff $prop 2>&1 | grep -E "^== |^violation" | head -3 | cut -c1-250
done
./mutants.sh clean
echo sens-finished
