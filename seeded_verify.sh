#!/bin/bash
# Confirms a sub-agent's seeded change in its scratch worktree (no git stash: the stash is shared between
# worktrees): suite passes with the change except the demo, demo fails with the change, passes without.
# Usage: seeded_verify.sh <id>   (worktree /tmp/agent_<id>, files in /tmp/agent_<id>/out)
ID=$1; W=/tmp/agent_$ID; export CARGO_TARGET_DIR=$W/target CARGO_NET_OFFLINE=true
cd $W || exit 2
git apply --check -R out/patch.diff 2>/dev/null || { echo "patch.diff does not match the worktree"; git diff --stat; }
DEMO=$(ls tests | grep -i seeded | head -1 | sed 's/\.rs$//')
echo "--- suite with change (demo $DEMO):"
cargo nextest run --workspace --no-fail-fast --offline 2>&1 | grep -E "Summary|^\s+FAIL \[" | sort -u | head -8
echo "--- demo without change:"
git apply -R out/patch.diff
cargo nextest run --offline --test $DEMO 2>&1 | grep -E "Summary|^\s+FAIL \[" | sort -u | head -4
git apply out/patch.diff
git status --short | head -8
